//! C09 (decode side): arbitrary bytes into every packet reader. Oracle inside the target:
//! nothing panics; if the crate decodes a value, encoding it and decoding again yields the same value;
//! if the reference codec decodes the bytes exactly (no trailing bytes, ordinals in range), the crate
//! decodes them to the same value and consumes all of them.
#![no_main]

#[path = "../../harness/src/refcodec.rs"]
#[allow(dead_code)]
mod refcodec;

use libfuzzer_sys::fuzz_target;
use passage_packets::configuration::clientbound as cfg_cb;
use passage_packets::configuration::serverbound as cfg_sb;
use passage_packets::handshake::serverbound as hs_sb;
use passage_packets::login::clientbound as login_cb;
use passage_packets::login::serverbound as login_sb;
use passage_packets::status::clientbound as st_cb;
use passage_packets::status::serverbound as st_sb;
use passage_packets::{AsyncReadPacket, AsyncWritePacket, ReadPacket, WritePacket};
use std::fmt::Debug;
use std::future::Future;
use std::io::Cursor;
use std::pin::pin;
use std::task::{Context, Poll, Waker};

fn block_on<F: Future>(f: F) -> F::Output {
    let mut f = pin!(f);
    let mut cx = Context::from_waker(Waker::noop());
    loop {
        if let Poll::Ready(v) = f.as_mut().poll(&mut cx) {
            return v;
        }
    }
}

fn roundtrip<T: ReadPacket + WritePacket + PartialEq + Debug + Send + Sync>(bytes: &[u8]) -> Option<(Vec<u8>, usize)> {
    let mut cur = Cursor::new(bytes.to_vec());
    let v = block_on(T::read_from_buffer(&mut cur)).ok()?;
    let used = cur.position() as usize;
    let mut out = Vec::new();
    block_on(v.write_to_buffer(&mut out)).expect("a decoded value must encode");
    let mut cur2 = Cursor::new(out.clone());
    let v2 = block_on(T::read_from_buffer(&mut cur2)).expect("an encoded value must decode");
    assert_eq!(v, v2, "decode(encode(v)) != v");
    assert_eq!(cur2.position() as usize, out.len(), "decoding an encoding leaves bytes over");
    Some((out, used))
}

fuzz_target!(|data: &[u8]| {
    if data.is_empty() {
        return;
    }
    let (sel, body) = (data[0], &data[1..]);
    // primitives
    {
        let mut cur = Cursor::new(body.to_vec());
        if let Ok(v) = block_on(cur.read_varint()) {
            let mut out = Vec::new();
            block_on(out.write_varint(v)).unwrap();
            assert_eq!(out, refcodec::varint_bytes(v), "VarInt encoding differs from LEB128");
            assert!(out.len() <= 5);
        }
        let mut cur = Cursor::new(body.to_vec());
        if let Ok(v) = block_on(cur.read_varlong()) {
            let mut out = Vec::new();
            block_on(out.write_varlong(v)).unwrap();
            assert_eq!(out, refcodec::varlong_bytes(v), "VarLong encoding differs from LEB128");
            assert!(out.len() <= 10);
        }
    }
    use refcodec::{Dir, Phase, Pkt};
    // (phase, dir, id) and the crate's roundtrip for the selected packet type
    let (phase, dir, id, rt): (Phase, Dir, i32, Option<(Vec<u8>, usize)>) = match sel % 22 {
        0 => (Phase::Handshake, Dir::Sb, 0x00, roundtrip::<hs_sb::HandshakePacket>(body)),
        1 => (Phase::Status, Dir::Sb, 0x01, roundtrip::<st_sb::PingPacket>(body)),
        2 => (Phase::Status, Dir::Cb, 0x00, roundtrip::<st_cb::StatusResponsePacket>(body)),
        3 => (Phase::Status, Dir::Cb, 0x01, roundtrip::<st_cb::PongPacket>(body)),
        4 => (Phase::Login, Dir::Cb, 0x00, roundtrip::<login_cb::DisconnectPacket>(body)),
        5 => (Phase::Login, Dir::Cb, 0x01, roundtrip::<login_cb::EncryptionRequestPacket>(body)),
        6 => (Phase::Login, Dir::Cb, 0x02, roundtrip::<login_cb::LoginSuccessPacket>(body)),
        7 => (Phase::Login, Dir::Cb, 0x05, roundtrip::<login_cb::CookieRequestPacket>(body)),
        8 => (Phase::Login, Dir::Sb, 0x00, roundtrip::<login_sb::LoginStartPacket>(body)),
        9 => (Phase::Login, Dir::Sb, 0x01, roundtrip::<login_sb::EncryptionResponsePacket>(body)),
        10 => (Phase::Login, Dir::Sb, 0x04, roundtrip::<login_sb::CookieResponsePacket>(body)),
        11 => (Phase::Config, Dir::Cb, 0x00, roundtrip::<cfg_cb::CookieRequestPacket>(body)),
        12 => (Phase::Config, Dir::Cb, 0x04, roundtrip::<cfg_cb::KeepAlivePacket>(body)),
        13 => (Phase::Config, Dir::Cb, 0x05, roundtrip::<cfg_cb::PingPacket>(body)),
        14 => (Phase::Config, Dir::Cb, 0x0A, roundtrip::<cfg_cb::StoreCookiePacket>(body)),
        15 => (Phase::Config, Dir::Cb, 0x0B, roundtrip::<cfg_cb::TransferPacket>(body)),
        16 => (Phase::Config, Dir::Sb, 0x00, roundtrip::<cfg_sb::ClientInformationPacket>(body)),
        17 => (Phase::Config, Dir::Sb, 0x04, roundtrip::<cfg_sb::KeepAlivePacket>(body)),
        18 => (Phase::Config, Dir::Sb, 0x05, roundtrip::<cfg_sb::PongPacket>(body)),
        19 => (Phase::Config, Dir::Sb, 0x06, roundtrip::<cfg_sb::ResourcePackResponsePacket>(body)),
        // text components: decoding must not panic; plain strings round-trip
        20 => {
            let mut cur = Cursor::new(body.to_vec());
            let _ = block_on(cfg_cb::DisconnectPacket::read_from_buffer(&mut cur));
            return;
        }
        _ => {
            let mut cur = Cursor::new(body.to_vec());
            let _ = block_on(cfg_cb::AddResourcePackPacket::read_from_buffer(&mut cur));
            return;
        }
    };
    // differential against the reference decoder (strict: whole body, ordinals in range)
    if let Ok(p) = Pkt::decode(phase, dir, id, body) {
        let in_range = match &p {
            Pkt::Handshake { next, .. } => (1..=3).contains(next),
            Pkt::ClientInformation { chat_mode, main_hand, particle_status, .. } => (0..=2).contains(chat_mode) && (0..=1).contains(main_hand) && (0..=2).contains(particle_status),
            Pkt::CfgResourcePackResponse { result, .. } => (0..=7).contains(result),
            Pkt::CfgTransfer { port, .. } => (0..=65535).contains(port),
            Pkt::EncryptionRequest { verify_token, .. } => verify_token.len() == 32,
            Pkt::LoginSuccess { properties, .. } => *properties == 0,
            _ => true,
        };
        if in_range {
            let (out, used) = rt.expect("the reference decodes these bytes exactly, the crate must decode them too");
            assert_eq!(used, body.len(), "the crate did not consume the whole body");
            // canonical re-encoding equals the reference encoding of the reference value
            assert_eq!(out, p.body(), "crate re-encoding differs from the protocol layout of {p:?}");
        }
    }
});
