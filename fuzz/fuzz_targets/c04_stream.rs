//! C04: arbitrary client byte streams against the real `Connection::listen` in the simulator.
//! Input layout: byte 0 = selector (bits 0-1: max_packet_length, bits 2-3: protocol state in which
//! the raw bytes are injected, bit 4: auth secret configured), rest = raw client bytes. For the states
//! after the encryption switch the target plays an honest login prefix itself and feeds the fuzz bytes
//! through the client's cipher. Oracle inside the target: the handler does not panic, returns after the
//! end of stream, and its largest single allocation stays within 8 x max_packet_length + 256 KiB.
#![no_main]

#[path = "../../harness/src/refcodec.rs"]
#[allow(dead_code)]
mod refcodec;
#[path = "../../harness/src/refcrypto.rs"]
#[allow(dead_code)]
mod refcrypto;
#[path = "../../harness/src/sim.rs"]
#[allow(dead_code)]
mod sim;
#[allow(dead_code)]
mod runner {
    thread_local! {
        pub static LAST_PANIC: std::cell::RefCell<Option<String>> = const { std::cell::RefCell::new(None) };
    }
    pub fn take_last_panic() -> Option<String> {
        LAST_PANIC.with(|p| p.borrow_mut().take())
    }
    pub fn idx(raw: u16, len: usize) -> usize {
        if len == 0 { 0 } else { ((raw as usize) * len) >> 16 }
    }
}

use libfuzzer_sys::fuzz_target;
use refcodec::Pkt;
use sim::{AdapterScript, ConnCfg, EncResp, ServerEnd, StrategyV, TransportScript};

#[global_allocator]
static ALLOC: sim::MeterAlloc = sim::MeterAlloc;

fuzz_target!(|data: &[u8]| {
    if data.is_empty() {
        return;
    }
    let sel = data[0];
    let raw = data[1..].to_vec();
    let max_len = [100i32, 1_000, 10_000, 1 << 20][(sel & 3) as usize];
    let state = (sel >> 2) & 3;
    let secret = if sel & 16 != 0 { Some(b"fuzz-secret".to_vec()) } else { None };
    // an honest login needs frames of 261 bytes
    let max_len = if state >= 2 && max_len < 400 { 400 } else { max_len };
    let cfg = ConnCfg { secret, max_len, ..Default::default() };
    let adapters = AdapterScript { strategy: StrategyV::None, ..Default::default() };
    let out = sim::run_sim(
        &cfg,
        &adapters,
        &TransportScript::default(),
        u64::from(sel),
        2000,
        client_fn!(|c| {
            match state {
                // raw bytes from the first byte on
                0 => {}
                // after a login handshake and Login Start
                1 => {
                    c.send(&Pkt::Handshake { protocol: 770, host: "f".into(), port: 1, next: 3 });
                    c.send(&Pkt::LoginStart { name: "Fuzz".into(), uuid: uuid::Uuid::from_u128(4) });
                    c.settle().await;
                    c.drain();
                }
                // after the encryption switch (login phase, before Login Acknowledged / in configuration)
                _ => {
                    c.send(&Pkt::Handshake { protocol: 770, host: "f".into(), port: 1, next: 2 });
                    c.send(&Pkt::LoginStart { name: "Fuzz".into(), uuid: uuid::Uuid::from_u128(4) });
                    let secret16: [u8; 16] = *b"0123456789abcdef";
                    loop {
                        match c.next().await {
                            Some((_, Pkt::LoginCookieRequest { key })) => c.send(&Pkt::LoginCookieResponse { key, payload: None }),
                            Some((_, Pkt::EncryptionRequest { .. })) => {
                                let resp = c.encryption_response(&EncResp::Honest, &secret16).expect("response");
                                c.send(&resp);
                                c.enable_encryption(&secret16);
                            }
                            Some((_, Pkt::LoginSuccess { .. })) => break,
                            Some(_) => {}
                            None => return,
                        }
                    }
                    if state == 3 {
                        c.send(&Pkt::LoginAck);
                    }
                }
            }
            c.push(&raw);
            c.settle().await;
            c.close();
        }),
    );
    match &out.end {
        ServerEnd::Panicked { msg } => panic!("connection handler panicked: {msg}"),
        ServerEnd::Hung => panic!("connection handler keeps running after the end of stream"),
        ServerEnd::Returned { .. } => {}
    }
    let bound = 8 * (max_len as usize) + 256 * 1024;
    assert!(out.max_alloc <= bound, "largest single allocation {} exceeds 8 x {} + 256 KiB", out.max_alloc, max_len);
});
