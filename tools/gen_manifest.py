#!/usr/bin/env python3
"""Generates /verif/MANIFEST.json from the table below (edit BUILT and the per-property texts here)."""
import json, os, sys

HERE = os.path.dirname(os.path.dirname(os.path.abspath(__file__)))

# property id -> (engine, technique, level text, level note, design ref)
P = {
 "C01": ("sim", "property-based testing (proptest): generated client behaviours x authentication verdicts against the real Connection over a scripted transport; oracle = identity vouched for on this connection",
         "Exploration: thousands of generated (claimed identity, verdict, encryption-response variant, cookie, intent) scenarios run through the real Connection::listen in a deterministic simulator; every Login Success / Store Cookie / Transfer / filter+strategy call is compared with the identity the authentication adapter or a reference-validated cookie vouched for. Sampling, not proof.",
         "Trusted: reference codec/crypto of the harness (AES block function, SHA-256, num-bigint modpow), tokio's paused clock. Adapters are scripted; the RSA key pair is the process-wide one of passage-protocol.", "DESIGN.md §4 C01"),
 "C02": ("sim", "property-based testing (proptest): cookie mutation classes (truncations, bit flips, foreign secret/IP, age boundaries, unparseable bodies) x intent x secret against a reference acceptance predicate",
         "Exploration with boundary-dense construction: every truncation length and bit position class, ages at expiry-1/expiry/expiry+1, compared with an independent predicate (hand-written HMAC-SHA256).",
         "Wall clock read by the code (SystemTime::now) is handled by a same-second guard: boundary cases that straddle a second are inconclusive, never violations.", "DESIGN.md §4 C02"),
 "C03": ("sim", "property-based testing (proptest): generated discovery/filter/strategy verdicts, locales and localisation tables; oracle = list equality along the pipeline, Transfer == chosen target, reference locale fallback chain",
         "Exploration of target lists (IPv4/IPv6, duplicates), filter/strategy outcomes and locale tables; Transfer host/port and Disconnect text are decoded with the independent codec/NBT decoder.",
         "Localisation tables are complete by construction (partial tables are unspecified); a share of cases uses the tables passage ships as its default configuration, and a share lets discovery complete while the first Keep Alive is partly written.", "DESIGN.md §4 C03, §10.6"),
 "C04": ("sim+libfuzzer", "property-based testing (proptest, one mutated frame per well-formed transcript) plus coverage-guided fuzzing (cargo-fuzz/libFuzzer) of the raw client byte stream; oracle = no panic, returns after EOF, bounded largest allocation, refused-before-body",
         "Exploration: structured mutations (length prefixes, truncations, over-long VarInts, bad UTF-8, ordinals, RSA garbage, secrets and verify tokens of the wrong length, prefix floods, hostile locales through the real localization adapter) before and after the encryption switch, with an allocation meter; a frame that is malformed by construction must not be answered at all; thorough adds libFuzzer campaigns.",
         "Allocation bound 8 x max_packet_length + 256 KiB measured on the handling thread; libFuzzer campaigns are only approximately reproducible from a seed, the saved input is the reproducible unit.", "DESIGN.md §4 C04"),
 "C05": ("pure", "property-based testing (proptest): generated operation sequences on CipherStream over a scripted transport (partial accepts, Pending, tiny reads, mid-stream switch); oracle = independent AES-128-CFB8 built on the raw block function",
         "Exploration of I/O schedules on the real CipherStream polled by hand (partial accepts, Pending, Interrupted errors, abandoned writes); the accepted ciphertext must equal the reference CFB8 encryption of exactly the bytes reported as written, and reads the matching decryption; a second family runs the switch inside a real connection with pipelined frames.",
         "Trusted: aes::Aes128::encrypt_block (checked against the NIST SP 800-38A CFB8 vector).", "DESIGN.md §4 C05"),
 "C06": ("sim", "property-based testing (proptest): generated serverbound packet sequences (legal, out of phase, repeated, unknown ids/next-states); oracle = reference protocol state machine predicting the clientbound packet kinds",
         "Exploration of packet sequences up to depth 12 (legal, out of phase, repeated, aliased ids, client silence, slow routing with pending writes) against a wire-level reference state machine written from the property statement; plus real-time scenarios with the status service behind the HTTP adapter of a passage child process.",
         "Configuration-phase packets outside the accepted set are unspecified: sequences are only checked up to that point plus global ordering invariants.", "DESIGN.md §4 C06"),
 "C07": ("sim", "property-based testing (proptest) under virtual time: generated adapter latencies x echo policies x Client Information delays; oracle = timed-trace invariants I1-I4 with the 16 s period taken from the property",
         "Exploration under tokio's paused clock with a seeded select! RNG; invariants over the timed trace of the real Connection; second and third runs with the terminal packet's / a Keep Alive's write pending or partial must give the same packets; timeout messages also from the tables passage ships.", "Ties (echo or routing completion exactly on a due instant) are not generated.", "DESIGN.md §4 C07"),
 "C08": ("sim", "metamorphic property-based testing (proptest): baseline run vs. variants of the same scenario with generated segmentation, write-acceptance patterns and cut points aimed at ticks/adapter completions; oracle = trace equality",
         "Exploration of schedules: each variant must produce the baseline's packets, adapter calls and outcome; cut points are aimed at instants read from the baseline trace.", "Race windows are one timer tick wide and are reached by construction, not by chance.", "DESIGN.md §4 C08"),
 "C09": ("pure+libfuzzer", "property-based testing (proptest) differential against a hand-written reference codec, byte for byte, both directions; exhaustive 2^32 VarInt sweep (thorough); libFuzzer decode round-trip (thorough)",
         "Exploration over all 41 packet types with boundary-dense field values; thorough tier enumerates all 2^32 VarInts exhaustively.", "Reference codec written from the protocol description; text components restricted to the BMP without NUL where UTF-8 and modified UTF-8 coincide.", "DESIGN.md §4 C09"),
 "C10": ("sim", "property-based testing (proptest) over two-connection histories; oracle = independent HMAC-SHA256 + cookie JSON contents + acceptance on the second connection",
         "Exploration of (identity, properties, target, address, secret of 0-200 bytes, session cookie presented or not on either connection) histories through two real connections.", "Timestamps are compared with a [now0, now1] window read around the case.", "DESIGN.md §4 C10"),
 "C11": ("pure", "property-based testing (proptest) differential against an independent SHA-1 (sha1_smol) + hand-written two's-complement hex formatting; reference-mined rare digest classes",
         "Exploration: 2*10^5 (quick) / 5*10^7 (thorough) random inputs plus inputs mined with the reference (leading zero / F nibbles, 16-32 trailing zero bits; 2^33 inputs scanned in the thorough tier), the serverId the real Mojang adapter sends, and whole logins against a passage child process whose server id comes from a configuration file or the environment.",
         "The digests 0x80..00 and 0 are unreachable through the public function (SHA-1 preimage).", "DESIGN.md §4 C11"),
 "C12": ("mock-http", "property-based testing (proptest): generated hostile user names against the real MojangAdapter talking to a loopback HTTP mock (hook H1); oracle = parsed request line (path, parameter names, decoded values) and reference hash",
         "Exploration of claimed names biased to reserved characters; the raw request line captured by the mock is parsed independently.", "Needs hook H1 (base URL override); plain HTTP instead of TLS.", "DESIGN.md §4 C12"),
 "C13": ("pure", "stateful property-based testing (proptest, op sequences + interpreter) under virtual time; oracles = exact-arithmetic reference limiter, model-free admission bounds, per-key projection replay, tracked-keys hook",
         "Exploration of arrival histories (boundary-dense inter-arrival times) against an exact rational model and model-free bounds.", "f32 rounding band around value == limit is 'don't care'; limits <= 200.", "DESIGN.md §4 C13"),
 "C14": ("real-tcp", "property-based testing (proptest) over configurations and client behaviours against passage::start / Listener on loopback; oracle = frame accepted iff <= configured maximum, cookie expiry/secret as configured, close <= timeout",
         "Exploration on real sockets and real time: per case one passage instance (in-process passage::start, or a child process that reads the same settings through Config::read from file / secret file / environment with decoys in the lower layers; with or without a configured secret) and 6-19 concurrent client scenarios (frames around the configured maximum, crafted and router-issued cookies around the configured expiry, other secrets, stalls, misbehaving clients, an unread 24 MiB response at the deadline); bounds generous, misses need a control run.", "Real-time oracles degrade to inconclusive; the server's end of a connection is observed in /proc/net/tcp where the verdict must not depend on socket buffers.", "DESIGN.md §4 C14, §10.4, §10.6"),
 "C15": ("real-tcp", "stateful property-based testing (proptest): generated arrival histories with PROXY v1/v2 headers through several peers; oracle = reference limiter on the effective IP, zero bytes to refused connections, client_addr seen by adapters/cookies",
         "Exploration of sequential arrival histories on loopback against a reference limiter (Listener built by the harness, or a passage child process configured through the layers), then a burst of simultaneous connections from one fresh address and a retry of an exhausted address after a pause.", "Connections of the history are made sequentially so arrival order is defined; in the burst only the number served is judged.", "DESIGN.md §4 C15, §10.6"),
 "C16": ("real-tcp", "property-based testing (proptest) with injected stalls: generated sets of stalling clients and stall points; oracle = bounded service time of a well-behaved client with control re-runs",
         "Exploration of stall placements on real sockets (stalls at every stage, floods, an address over its limit, resets before accept), crowds arriving while the limiter's clean-up is due, and the cost of admission against millions of recently seen addresses; bounded-time safety, not liveness.", "A miss is a violation only if it reproduces and the control run is fast.", "DESIGN.md §4 C16, §10.6"),
 "C17": ("real-tcp", "property-based testing (proptest) over cancel instants relative to in-flight progress; oracle = in-flight clients complete, late clients get no byte, listen returns after the last one",
         "Exploration of shutdown moments with explicit synchronisation on received packets; late clients are pre-spawned and connect within microseconds of cancel(); a share of cases stops the whole application (child process) with SIGINT while clients are in flight.", "Kernel/tokio multi-thread scheduling is not owned by the harness.", "DESIGN.md §4 C17, §10.6"),
 "C18": ("pure", "property-based testing (proptest): generated filter-chain and strategy configurations (through the crate's own Deserialize + from_config) x target lists x players; oracle = independent reference evaluator / validity predicate",
         "Exploration of configurations and target lists against a reference eligibility evaluator.", "Regex semantics are the regex crate's in both implementation and reference.", "DESIGN.md §4 C18"),
 "C19": ("mock-grpc", "property-based testing (proptest): generated targets/addresses/metadata through a loopback tonic mock of Discovery and Strategy; oracle = field-by-field equality, malformed replies must be Err",
         "Exploration of address forms (IPv4/IPv6 textual variants), ports, metadata, malformed replies; both adapters are built from configuration values through the root crate's wrappers, as passage::start builds them.", "Server stubs generated from the repository's own .proto files.", "DESIGN.md §4 C19, §10.6"),
 "C20": ("mock-k8s", "stateful property-based testing (proptest): generated list/watch histories served by a mock Kubernetes API; oracle = model map name -> last observed object, checked after a sentinel barrier",
         "Exploration of watch histories (ADDED/MODIFIED/DELETED/BOOKMARK, drops, 410 re-lists).", "Sentinel barrier assumes events are applied in order.", "DESIGN.md §4 C20"),
}

# properties whose check is built and claimed
BUILT = os.environ.get("VERIF_BUILT", "").split() or [l.strip() for l in open(os.path.join(HERE, "tools", "built.txt")) if l.strip()]
NOT_APPLICABLE = {}
na_path = os.path.join(HERE, "tools", "not_applicable.json")
if os.path.exists(na_path):
    NOT_APPLICABLE = json.load(open(na_path))

checks = []
for pid in sorted(P):
    if pid not in BUILT:
        continue
    engine, technique, text, note, ref = P[pid]
    checks.append({
        "property_id": pid,
        "quick_cmd": f"./check {pid} quick",
        "thorough_cmd": f"./check {pid} thorough",
        "evidence_file": f"/verif/evidence/{pid}.json",
        "replay_cmd_template": f"./check {pid} --replay {{path}}",
        "engine": engine,
        "level_claimed": {"category": "exploration", "text": text, "design_ref": ref},
        "level_note": note,
        "technique": technique,
    })

na = []
for pid in sorted(P):
    if pid in BUILT:
        continue
    na.append({"property_id": pid, "reason": NOT_APPLICABLE.get(pid, "check designed (DESIGN.md §4) but not built yet; not claimed until it runs quietly on the unchanged tree")})

hooks_commits = []
hc = os.path.join(HERE, "tools", "hook_commits.txt")
if os.path.exists(hc):
    hooks_commits = [l.split()[0] for l in open(hc) if l.strip()]

manifest = {
    "version": 1,
    "setup_cmd": "./check --setup",
    "hooks": {
        "guard": "cargo feature `verif-hooks` (passage-adapters-http, passage-protocol)",
        "enable": "the harness crate depends on the repository crates by path with features = [\"verif-hooks\"]; `./check` builds with `cargo build --profile verif` in /verif/harness",
        "baseline_off_cmd": "cd /repo && cargo nextest run --workspace --no-fail-fast --offline || cargo test --workspace --no-fail-fast --offline",
        "source_commits": hooks_commits,
        "add_only": True,
    },
    "engines": [
        {"name": "pure", "path": "harness/src/checks", "serves_properties": ["C05", "C09", "C11", "C13", "C18"], "kind_free_text": "proptest over pure functions / hand-polled streams / paused-clock runtimes"},
        {"name": "sim", "path": "harness/src/sim", "serves_properties": ["C01", "C02", "C03", "C04", "C06", "C07", "C08", "C10"], "kind_free_text": "deterministic connection simulator: scripted transport + scripted adapters + reactive reference client around the real Connection::listen, virtual time, seeded select!"},
        {"name": "real-tcp", "path": "harness/src/net", "serves_properties": ["C14", "C15", "C16", "C17"], "kind_free_text": "real Listener / passage::start on loopback sockets"},
        {"name": "mocks", "path": "harness/src/mocks", "serves_properties": ["C12", "C19", "C20"], "kind_free_text": "loopback HTTP / gRPC / Kubernetes API mocks"},
        {"name": "libfuzzer", "path": "fuzz", "serves_properties": ["C04", "C09"], "kind_free_text": "cargo-fuzz targets with in-target oracles (thorough tier)"},
    ],
    "checks": checks,
    "not_applicable": na,
    "notes": "One binary (harness/target/verif/verif), one sub-command per property; ./check <ID> <tier> rebuilds from /repo's working tree first. Exit 2 = build failure / hang / inconclusive. Known findings: KNOWN_FINDINGS.json.",
}
json.dump(manifest, open(os.path.join(HERE, "MANIFEST.json"), "w"), indent=1)
print("wrote MANIFEST.json with", len(checks), "checks;", len(na), "not claimed")
