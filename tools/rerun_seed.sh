#!/bin/bash
# usage: tools/rerun_seed.sh <seeded dir name> <check ids...> : applies the stored patch to /repo, runs the quick checks, restores /repo, appends the result to meta.json
set -u
D="/verif/seeded/$1"; shift
cd /verif
rm -rf /verif/.evidence.keep; cp -r /verif/evidence /verif/.evidence.keep
git -C /repo apply "$D/patch.diff" || { echo "patch does not apply"; exit 2; }
RES=""
for c in "$@"; do
  ./check $c quick > /tmp/seed-check-$c.log 2>&1; rc=$?
  sig=$(grep -m1 "signature:" /tmp/seed-check-$c.log | sed 's/.*signature: //')
  echo "   check $c quick -> exit $rc ${sig:+[$sig]}"
  RES="$RES{\"check\":\"$c\",\"tier\":\"quick\",\"exit\":$rc,\"signature\":\"$sig\"},"
done
git -C /repo checkout -- .
rm -rf /verif/evidence; mv /verif/.evidence.keep /verif/evidence
jq --argjson res "[${RES%,}]" '. + {checks_rerun_after_strengthening: ((.checks_rerun_after_strengthening // []) | map(select(.check as $c | ($res | map(.check) | index($c)) | not)) + $res)}' "$D/meta.json" > /tmp/meta.$$ && mv /tmp/meta.$$ "$D/meta.json"
