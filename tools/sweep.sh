#!/bin/bash
# usage: tools/sweep.sh <tier> <seed>... : runs every check of the given tier for each seed on the current tree; prints one line per run
tier=$1; shift
cd /verif
for seed in "$@"; do
  for c in C01 C02 C03 C04 C05 C06 C07 C08 C09 C10 C11 C12 C13 C14 C15 C16 C17 C18 C19 C20; do
    VERIF_SEED=$seed ./check $c $tier > logs/sweep-$tier-$c-$seed.log 2>&1; rc=$?
    echo "seed=$seed $c $tier exit=$rc $(grep -E "^$c $tier:" logs/sweep-$tier-$c-$seed.log | tail -1)"
    grep -E "VIOLATION|KNOWN-FINDING" logs/sweep-$tier-$c-$seed.log | head -3
  done
done
