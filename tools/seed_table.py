#!/usr/bin/env python3
"""Prints the markdown table of seeded changes (seeded/*/meta.json) for DESIGN.md section 10.6."""
import glob, json, os
rows = []
for d in sorted(glob.glob('/verif/seeded/*/')):
    m = json.load(open(os.path.join(d, 'meta.json')))
    name = os.path.basename(os.path.dirname(d))
    first = m.get('checks_run', [])
    later = m.get('checks_rerun_after_strengthening', [])
    def fmt(rs):
        return ', '.join(f"{r['check']}: {'caught [' + r['signature'] + ']' if r['exit'] == 1 else ('missed' if r['exit'] == 0 else 'exit ' + str(r['exit']))}" for r in rs) or '—'
    summary = (m.get('summary') or '').replace('|', '/').replace('\n', ' ')
    if len(summary) > 170:
        summary = summary[:167] + '…'
    rows.append(f"| {name} | {summary} | {fmt(first)} | {fmt(later)} |")
print("| seed | change | first run (quick) | after strengthening |")
print("|---|---|---|---|")
print('\n'.join(rows))
