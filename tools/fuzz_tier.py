#!/usr/bin/env python3
"""Thorough-tier libFuzzer campaign for one property (C04 -> c04_stream, C09 -> c09_decode).
usage: fuzz_tier.py <ID> <seed> <runs-per-worker>
Builds the target from /repo's working tree, runs 16 workers on a fresh corpus directory seeded from
corpus/fuzz/<target>, merges the numbers into evidence/<ID>.json and prints a VIOLATION line per crash."""
import glob, json, os, re, shutil, subprocess, sys, time

ID, seed, runs = sys.argv[1], int(sys.argv[2]), int(sys.argv[3])
target = {"C04": "c04_stream", "C09": "c09_decode"}[ID]
V = os.environ.get("VERIF_DIR", "/verif")
H = os.path.join(V, "harness")
env = dict(os.environ, CARGO_NET_OFFLINE="true")
t0 = time.time()
b = subprocess.run(["cargo", "+nightly", "fuzz", "build", "-s", "none", "--fuzz-dir", "../fuzz", target], cwd=H, env=env, capture_output=True, text=True)
if b.returncode != 0:
    sys.stderr.write(b.stderr[-3000:])
    print("fuzz build failed (inconclusive)")
    sys.exit(2)
run_dir = os.path.join(V, "fuzz", "corpus-run", f"{target}-{seed}")
shutil.rmtree(run_dir, ignore_errors=True)
os.makedirs(run_dir)
for f in glob.glob(os.path.join(V, "corpus", "fuzz", target, "*")):
    shutil.copy(f, run_dir)
art = os.path.join(V, "fuzz", "artifacts", target)
os.makedirs(art, exist_ok=True)
before = set(os.listdir(art))
binary = os.path.join(V, "fuzz", "target", "x86_64-unknown-linux-gnu", "release", target)
workers = 16
max_len = {"c04_stream": 600, "c09_decode": 800}[target]
procs = []
for w in range(workers):
    log = open(os.path.join(run_dir, f"worker-{w}.log"), "w")
    # libFuzzer: -seed=0 means random, so remap
    s = (seed * 1000 + w) or 1
    procs.append((subprocess.Popen([binary, run_dir, f"-artifact_prefix={art}/", f"-runs={runs}", f"-seed={s}", "-len_control=0", f"-max_len={max_len}", "-timeout=60", "-rss_limit_mb=6000", "-print_final_stats=1"], stdout=log, stderr=subprocess.STDOUT, cwd=run_dir), log))
execs, crashed = 0, 0
for w, (p, log) in enumerate(procs):
    rc = p.wait()
    log.close()
    txt = open(os.path.join(run_dir, f"worker-{w}.log"), errors="replace").read()
    m = re.search(r"stat::number_of_executed_units:\s*(\d+)", txt)
    if m:
        execs += int(m.group(1))
    if rc != 0:
        crashed += 1
new = sorted(set(os.listdir(art)) - before)
corpus_n = len([f for f in os.listdir(run_dir) if not f.endswith(".log")])
ev_path = os.path.join(V, "evidence", f"{ID}.json")
try:
    ev = json.load(open(ev_path))
    ev["coverage"]["fuzz"] = {"engine": "cargo-fuzz / libFuzzer", "target": target, "workers": workers, "runs_per_worker": runs, "executions": execs, "corpus_files_at_end": corpus_n, "new_artifacts": new, "seed": seed, "note": "libFuzzer campaigns are only approximately reproducible from a seed; a saved artifact is the reproducible unit"}
    ev["coverage"]["evaluations"] = int(ev["coverage"].get("evaluations", 0)) + execs
    ev["wall_s"] = float(ev.get("wall_s", 0)) + (time.time() - t0)
    if new:
        ev["violations"] = int(ev.get("violations", 0)) + len(new)
    json.dump(ev, open(ev_path, "w"), indent=1)
except Exception as e:
    sys.stderr.write(f"could not update evidence: {e}\n")
for a in new:
    print(f"VIOLATION property={ID} replay={os.path.join(art, a)}")
print(f"{ID} fuzz {target}: executions={execs} workers={workers} crashed_workers={crashed} new_artifacts={len(new)} wall={time.time()-t0:.0f}s")
sys.exit(1 if new else 0)
