#!/usr/bin/env python3
"""Writes a few small valid inputs for the libFuzzer targets (the campaigns also start from an empty corpus)."""
import os, struct
HERE = os.path.dirname(os.path.dirname(os.path.abspath(__file__)))

def varint(v):
    v &= 0xffffffff
    out = bytearray()
    while True:
        g = v & 0x7f
        v >>= 7
        if v:
            out.append(g | 0x80)
        else:
            out.append(g)
            return bytes(out)

def string(s):
    b = s.encode()
    return varint(len(b)) + b

def frame(pid, body):
    inner = varint(pid) + body
    return varint(len(inner)) + inner

handshake = lambda nxt: frame(0, varint(770) + string("fuzz.example.org") + struct.pack(">H", 25565) + varint(nxt))
login_start = frame(0, string("Fuzzer") + bytes(range(16)))
status_req = frame(0, b"")
ping = frame(1, struct.pack(">Q", 42))
cookie_none = frame(4, string("passage:session") + b"\x00")
client_info = frame(0, string("en_us") + b"\x0a" + varint(0) + b"\x01\x7f" + varint(1) + b"\x00\x01" + varint(0))
keep_alive = frame(4, struct.pack(">Q", 7))
plugin = frame(2, string("minecraft:brand") + b"vanilla")
login_ack = frame(3, b"")

c04 = {
    "status": bytes([0b00010]) + handshake(1) + status_req + ping,
    "login_prefix": bytes([0b00010]) + handshake(2) + login_start + cookie_none,
    "transfer_prefix": bytes([0b10010]) + handshake(3) + login_start + cookie_none + cookie_none,
    "after_login_start": bytes([0b00110]) + cookie_none,
    "after_switch_login": bytes([0b01010]) + login_ack + plugin + keep_alive + client_info,
    "after_switch_config": bytes([0b01110]) + plugin + keep_alive + client_info,
    "huge_len": bytes([0b00000]) + varint(0x7fffffff) + b"\x00",
    "neg_len": bytes([0b00001]) + varint(-1) + b"\x00",
}
d = os.path.join(HERE, "corpus", "fuzz", "c04_stream")
os.makedirs(d, exist_ok=True)
for k, v in c04.items():
    open(os.path.join(d, k + ".bin"), "wb").write(v)

c09 = {
    "handshake": bytes([0]) + varint(770) + string("host") + struct.pack(">H", 25565) + varint(2),
    "enc_request": bytes([5]) + string("") + varint(3) + b"abc" + varint(32) + bytes(32) + b"\x01",
    "login_success": bytes([6]) + bytes(range(16)) + string("Name") + varint(0),
    "login_start": bytes([8]) + string("Name") + bytes(range(16)),
    "cookie_response": bytes([10]) + string("passage:authentication") + b"\x01" + varint(4) + b"abcd",
    "transfer": bytes([15]) + string("10.0.0.1") + varint(25565),
    "client_info": bytes([16]) + string("de_de") + b"\x0a" + varint(1) + b"\x01\x7f" + varint(1) + b"\x00\x01" + varint(2),
    "resource_pack_response": bytes([19]) + bytes(range(16)) + varint(3),
    "disconnect_plain": bytes([20]) + b"\x08\x00\x02hi",
    "disconnect_compound": bytes([20]) + b"\x0a\x08\x00\x04text\x00\x02hi\x00",
    "varlong_neg": bytes([1]) + b"\xff\xff\xff\xff\xff\xff\xff\xff\xff\x01",
}
d = os.path.join(HERE, "corpus", "fuzz", "c09_decode")
os.makedirs(d, exist_ok=True)
for k, v in c09.items():
    open(os.path.join(d, k + ".bin"), "wb").write(v)
print("seeds written")
