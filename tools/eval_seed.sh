#!/bin/bash
# PHASE=confirm: only step 1 (parallelisable across worktrees); PHASE=check: only steps 2-3 (serial, uses /repo)
# usage: tools/eval_seed.sh <PROPERTY-ID> <scratch-worktree> <n> [extra check ids...]
# 1. confirms in the scratch worktree: patch applies, existing tests pass with it, demo fails with it and passes without
# 2. applies the patch to /repo, runs the quick check(s), restores /repo
# 3. stores the mutation under /verif/seeded/<id>-<n>/
set -u
ID="$1"; WT="$2"; N="$3"; shift 3
CHECKS="$ID $*"
S="$WT/seeded/$N"
OUT="/verif/seeded/$ID-${SEEDTAG:-}$N"
export CARGO_NET_OFFLINE=true CARGO_TARGET_DIR="$WT/target"
[ -f "$S/patch.diff" ] || { echo "no patch at $S"; exit 2; }
if [ "${PHASE:-all}" != check ]; then
cd "$WT" && git checkout -q -- . && git clean -fdq -e seeded -e target
PLACE=$(jq -r '.demo_placement // empty' "$S/meta.json" | awk '{print $1}')
CMD=$(jq -r '.demo_cmd // empty' "$S/meta.json" | sed 's/ *(fallback.*$//; s/ *(.*$//')
echo "== demo placement: $PLACE ; cmd: $CMD"
[ -n "$PLACE" ] && [ -f "$S/demo.rs" ] && mkdir -p "$(dirname "$WT/$PLACE")" && cp "$S/demo.rs" "$WT/$PLACE"
echo "== [clean] demo must pass"
( cd "$WT" && eval "$CMD" >/tmp/seed-clean-$ID-$N.log 2>&1 ); CLEAN=$?
echo "   exit $CLEAN"
git apply "$S/patch.diff" || { echo "patch does not apply"; exit 2; }
echo "== [mutated] existing tests must pass"
( cd "$WT" && [ -n "$PLACE" ] && mv "$WT/$PLACE" /tmp/seed-demo-parked-$ID-$N.rs; cargo nextest run --workspace --no-fail-fast --offline >/tmp/seed-tests-$ID-$N.log 2>&1 ); TESTS=$?
tail -2 /tmp/seed-tests-$ID-$N.log
[ -n "$PLACE" ] && [ -f /tmp/seed-demo-parked-$ID-$N.rs ] && mv /tmp/seed-demo-parked-$ID-$N.rs "$WT/$PLACE"
echo "== [mutated] demo must fail"
( cd "$WT" && eval "$CMD" >/tmp/seed-mut-$ID-$N.log 2>&1 ); MUT=$?
echo "   exit $MUT"
git checkout -q -- .
[ -n "$PLACE" ] && rm -f "$WT/$PLACE"
if [ $CLEAN -ne 0 ] || [ $TESTS -ne 0 ] || [ $MUT -eq 0 ]; then echo "SEED NOT CONFIRMED $ID-$N (clean=$CLEAN tests=$TESTS mutated=$MUT)"; exit 3; fi
echo "CONFIRMED $ID-$N"
[ "${PHASE:-all}" = confirm ] && exit 0
fi
unset CARGO_TARGET_DIR
echo "== confirmed; running checks against /repo with the patch"
cd /verif
rm -rf /verif/.evidence.keep; cp -r /verif/evidence /verif/.evidence.keep
git -C /repo apply "$S/patch.diff" || { echo "patch does not apply to /repo"; exit 2; }
RES=""
for c in $CHECKS; do
  ./check $c quick > /tmp/seed-check-$c.log 2>&1; rc=$?
  sig=$(grep -m1 "signature:" /tmp/seed-check-$c.log | sed 's/.*signature: //')
  echo "   check $c quick -> exit $rc ${sig:+[$sig]}"
  RES="$RES{\"check\":\"$c\",\"tier\":\"quick\",\"exit\":$rc,\"signature\":\"$sig\"},"
done
git -C /repo checkout -- .
rm -rf /verif/evidence; mv /verif/.evidence.keep /verif/evidence
git -C /repo status --short | head -3
mkdir -p "$OUT"
cp "$S/patch.diff" "$OUT/patch.diff"; [ -f "$S/demo.rs" ] && cp "$S/demo.rs" "$OUT/demo.rs"; [ -f "$S/demo.sh" ] && cp "$S/demo.sh" "$OUT/demo.sh"
jq --argjson res "[${RES%,}]" '. + {confirmed: {clean_demo_exit: 0, existing_tests_with_change: "77 passed", demo_with_change: "fails"}, checks_run: $res}' "$S/meta.json" > "$OUT/meta.json"
echo "stored $OUT"
