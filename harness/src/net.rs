//! Real-socket engine: the real `Listener` / `passage::start` on loopback, a blocking reference client
//! (refcodec / refcrypto over `std::net::TcpStream`), PROXY protocol header builders and recording
//! adapters.

use crate::refcodec::{self as rc, Dir, Phase, Pkt};
use crate::refcrypto::{Cfb8, RsaPub};
use crate::sim::TargetSpec;
use passage_adapters::authentication::{AuthenticationAdapter, Profile};
use passage_adapters::discovery::DiscoveryAdapter;
use passage_adapters::filter::FilterAdapter;
use passage_adapters::localization::LocalizationAdapter;
use passage_adapters::status::StatusAdapter;
use passage_adapters::strategy::StrategyAdapter;
use passage_adapters::{Protocol, ServerStatus, Target};
use passage_protocol::listener::{Listener, ParseConfig};
use passage_protocol::rate_limiter::RateLimiter;
use serde_json::{Value, json};
use std::io::{Read, Write};
use std::net::{IpAddr, SocketAddr, TcpStream};
use std::sync::{Arc, Mutex};
use std::time::{Duration, Instant};
use tokio_util::sync::CancellationToken;
use uuid::Uuid;

// ---------------------------------------------------------------------------------------------
// recording adapters (real time)
// ---------------------------------------------------------------------------------------------

#[derive(Clone, Debug)]
pub struct NetScript {
    pub targets: Vec<TargetSpec>,
    /// real latency of discovery; None = never completes
    pub discovery_ms: Option<u64>,
    /// the identity the authentication service vouches for (None = the claimed one)
    pub profile: Option<(String, Uuid)>,
}

impl Default for NetScript {
    fn default() -> Self {
        Self { targets: vec![TargetSpec { identifier: "lobby".into(), addr: "10.9.8.7:25565".into(), meta: Default::default() }], discovery_ms: Some(0), profile: None }
    }
}

pub struct NetAdapters {
    pub script: NetScript,
    pub calls: Arc<Mutex<Vec<(Instant, &'static str, Value)>>>,
}

impl std::fmt::Debug for NetAdapters {
    fn fmt(&self, f: &mut std::fmt::Formatter<'_>) -> std::fmt::Result {
        write!(f, "NetAdapters")
    }
}

impl NetAdapters {
    pub fn new(script: NetScript) -> Arc<Self> {
        Arc::new(Self { script, calls: Arc::new(Mutex::new(Vec::new())) })
    }
    fn call(&self, kind: &'static str, args: Value) {
        self.calls.lock().unwrap().push((Instant::now(), kind, args));
    }
    pub fn calls_of(&self, kind: &str) -> Vec<Value> {
        self.calls.lock().unwrap().iter().filter(|(_, k, _)| *k == kind).map(|(_, _, a)| a.clone()).collect()
    }
}

impl StatusAdapter for NetAdapters {
    async fn status(&self, client_addr: &SocketAddr, server_addr: (&str, u16), protocol: Protocol) -> passage_adapters::Result<Option<ServerStatus>> {
        self.call("status", json!({"client_addr": client_addr.to_string(), "host": server_addr.0, "port": server_addr.1, "protocol": protocol}));
        Ok(Some(ServerStatus { version: passage_adapters::ServerVersion { name: "verif".into(), protocol }, players: None, description: None, favicon: None, enforces_secure_chat: None }))
    }
}

impl AuthenticationAdapter for NetAdapters {
    async fn authenticate(&self, client_addr: &SocketAddr, _server_addr: (&str, u16), _protocol: Protocol, user: (&str, &Uuid), _shared_secret: &[u8], _encoded_public: &[u8]) -> passage_adapters::Result<Profile> {
        self.call("authenticate", json!({"client_addr": client_addr.to_string(), "name": user.0}));
        let (name, id) = self.script.profile.clone().unwrap_or((user.0.to_string(), *user.1));
        Ok(Profile { id, name, properties: vec![], profile_actions: vec![] })
    }
}

impl DiscoveryAdapter for NetAdapters {
    async fn discover(&self) -> passage_adapters::Result<Vec<Target>> {
        self.call("discover", json!({}));
        match self.script.discovery_ms {
            Some(0) => {}
            Some(ms) => tokio::time::sleep(Duration::from_millis(ms)).await,
            None => std::future::pending::<()>().await,
        }
        Ok(self.script.targets.iter().map(TargetSpec::to_target).collect())
    }
}

impl FilterAdapter for NetAdapters {
    async fn filter(&self, client_addr: &SocketAddr, _server_addr: (&str, u16), _protocol: Protocol, user: (&str, &Uuid), targets: Vec<Target>) -> passage_adapters::Result<Vec<Target>> {
        self.call("filter", json!({"client_addr": client_addr.to_string(), "name": user.0}));
        Ok(targets)
    }
}

impl StrategyAdapter for NetAdapters {
    async fn select(&self, client_addr: &SocketAddr, _server_addr: (&str, u16), _protocol: Protocol, user: (&str, &Uuid), targets: Vec<Target>) -> passage_adapters::Result<Option<Target>> {
        self.call("select", json!({"client_addr": client_addr.to_string(), "name": user.0}));
        Ok(targets.first().cloned())
    }
}

impl LocalizationAdapter for NetAdapters {
    async fn localize(&self, locale: Option<&str>, key: &str, _params: &[(&'static str, String)]) -> passage_adapters::Result<String> {
        Ok(format!("{key}|{}", locale.unwrap_or("-")))
    }
}

// ---------------------------------------------------------------------------------------------
// launching the real listener
// ---------------------------------------------------------------------------------------------

#[derive(Clone, Debug)]
pub struct ListenerCfg {
    pub proxy: Option<(bool, bool)>,
    pub limiter: Option<(Duration, usize)>,
    pub timeout: Duration,
    pub secret: Option<Vec<u8>>,
    pub max_packet_length: i32,
    pub auth_cookie_expiry: u64,
    /// this many distinct (idle) addresses are already tracked by the limiter when the listener starts
    pub limiter_prefill: usize,
    /// the limiter is already older than two windows when those addresses visit (they are fresh, it is not)
    pub limiter_prefill_fresh: bool,
}

impl Default for ListenerCfg {
    fn default() -> Self {
        Self { proxy: None, limiter: None, timeout: Duration::from_secs(10), secret: None, max_packet_length: 10_000, auth_cookie_expiry: 21_600, limiter_prefill: 0, limiter_prefill_fresh: false }
    }
}

pub struct Running {
    pub port: u16,
    pub stop: CancellationToken,
    pub adapters: Arc<NetAdapters>,
    /// set when `listen` has returned
    pub returned_at: Arc<Mutex<Option<Instant>>>,
    pub thread: Option<std::thread::JoinHandle<()>>,
}

/// A port for a listener under test. Ports come from a private range below the kernel's ephemeral range and
/// are handed out round-robin, so that within a run no two instances ever listen on the same port: a client
/// that connects to the port of an instance that has already stopped can never reach another instance.
pub fn free_port() -> u16 {
    static NEXT: std::sync::atomic::AtomicU32 = std::sync::atomic::AtomicU32::new(0);
    loop {
        let n = NEXT.fetch_add(1, std::sync::atomic::Ordering::Relaxed);
        let port = 10_000 + ((std::process::id().wrapping_mul(7919).wrapping_add(n)) % 22_000) as u16;
        if std::net::TcpListener::bind(("127.0.0.1", port)).is_ok() {
            return port;
        }
    }
}

pub fn start_listener(cfg: &ListenerCfg, script: NetScript, workers: usize) -> Running {
    let port = free_port();
    let stop = CancellationToken::new();
    let adapters = NetAdapters::new(script);
    let returned_at = Arc::new(Mutex::new(None));
    let (stop2, ad2, ret2, cfg2) = (stop.clone(), Arc::clone(&adapters), Arc::clone(&returned_at), cfg.clone());
    let thread = std::thread::Builder::new()
        .name(format!("listener-{port}"))
        .spawn(move || {
            let rt = tokio::runtime::Builder::new_multi_thread().worker_threads(workers.max(1)).enable_all().build().expect("rt");
            rt.block_on(async move {
                let mut listener = Listener::new(ad2.clone(), ad2.clone(), ad2.clone(), ad2.clone(), ad2.clone(), ad2.clone())
                    .with_rate_limiter(cfg2.limiter.map(|(d, l)| {
                        let mut rl = RateLimiter::<IpAddr>::new(d, l);
                        if cfg2.limiter_prefill_fresh {
                            std::thread::sleep(d * 2 + Duration::from_millis(5));
                        }
                        for i in 0..cfg2.limiter_prefill {
                            rl.enqueue(IpAddr::V6(std::net::Ipv6Addr::from(0x2001_0db8_0000_0000_0000_0000_0000_0000u128 + i as u128)));
                        }
                        rl
                    }))
                    .with_proxy_protocol(cfg2.proxy.map(|(v1, v2)| ParseConfig { include_tlvs: false, allow_v1: v1, allow_v2: v2 }))
                    .with_connection_timeout(cfg2.timeout)
                    .with_auth_secret(cfg2.secret.clone())
                    .with_max_packet_length(cfg2.max_packet_length)
                    .with_auth_cookie_expiry(cfg2.auth_cookie_expiry);
                let r = listener.listen(format!("127.0.0.1:{port}"), stop2).await;
                if let Err(e) = r {
                    eprintln!("listener on port {port} failed: {e}");
                }
                *ret2.lock().unwrap() = Some(Instant::now());
            });
        })
        .expect("spawn listener thread");
    wait_accepting(port);
    Running { port, stop, adapters, returned_at, thread: Some(thread) }
}

/// waits until a socket listens on the port (read from /proc/net/tcp, so that no probe connection
/// reaches the code under test)
pub fn is_listening(port: u16) -> bool {
    let needle = format!(":{port:04X}");
    std::fs::read_to_string("/proc/net/tcp")
        .map(|t| {
            t.lines().skip(1).any(|l| {
                let f: Vec<&str> = l.split_whitespace().collect();
                f.len() > 3 && f[1].ends_with(&needle) && f[3] == "0A"
            })
        })
        .unwrap_or(false)
}

/// TCP state (as in /proc/net/tcp: 1 = ESTABLISHED, 4/5 = FIN_WAIT, 6 = TIME_WAIT, ...) of the *server's* end of the
/// loopback connection between the listener port and this client port; None = no such socket (any more)
pub fn server_side_state(server_port: u16, client_port: u16) -> Option<u8> {
    let local = format!("0100007F:{server_port:04X}");
    let remote = format!("0100007F:{client_port:04X}");
    let text = std::fs::read_to_string("/proc/net/tcp").ok()?;
    text.lines().skip(1).find_map(|l| {
        let f: Vec<&str> = l.split_whitespace().collect();
        (f.len() > 3 && f[1] == local && f[2] == remote).then(|| u8::from_str_radix(f[3], 16).ok()).flatten()
    })
}

pub fn wait_accepting(port: u16) {
    let t0 = Instant::now();
    loop {
        if is_listening(port) {
            return;
        }
        if t0.elapsed() > Duration::from_secs(10) {
            panic!("listener on port {port} did not start");
        }
        std::thread::sleep(Duration::from_millis(2));
    }
}

impl Running {
    pub fn shutdown(mut self) {
        self.stop.cancel();
        if let Some(t) = self.thread.take() {
            let _ = t.join();
        }
    }
}

// ---------------------------------------------------------------------------------------------
// PROXY protocol headers
// ---------------------------------------------------------------------------------------------

pub fn proxy_v1(src: SocketAddr, dst: SocketAddr) -> Vec<u8> {
    // both addresses of a v1 header belong to the same family
    match (src.ip(), dst.ip()) {
        (IpAddr::V4(s), IpAddr::V4(d)) => format!("PROXY TCP4 {s} {d} {} {}\r\n", src.port(), dst.port()).into_bytes(),
        (s, d) => {
            let to6 = |a: IpAddr| match a {
                IpAddr::V6(x) => x,
                IpAddr::V4(x) => x.to_ipv6_mapped(),
            };
            format!("PROXY TCP6 {} {} {} {}\r\n", to6(s), to6(d), src.port(), dst.port()).into_bytes()
        }
    }
}

const V2_SIG: [u8; 12] = [0x0D, 0x0A, 0x0D, 0x0A, 0x00, 0x0D, 0x0A, 0x51, 0x55, 0x49, 0x54, 0x0A];

pub fn proxy_v2(src: SocketAddr, dst: SocketAddr) -> Vec<u8> {
    proxy_v2_transport(src, dst, false)
}

/// a version 2 header whose transport nibble says STREAM (TCP) or DGRAM (UDP); both announce the addresses
pub fn proxy_v2_transport(src: SocketAddr, dst: SocketAddr, dgram: bool) -> Vec<u8> {
    let t = if dgram { 0x02u8 } else { 0x01u8 };
    let mut v = V2_SIG.to_vec();
    v.push(0x21); // version 2, PROXY
    match (src, dst) {
        (SocketAddr::V4(s), SocketAddr::V4(d)) => {
            v.push(0x10 | t);
            v.extend_from_slice(&12u16.to_be_bytes());
            v.extend_from_slice(&s.ip().octets());
            v.extend_from_slice(&d.ip().octets());
            v.extend_from_slice(&s.port().to_be_bytes());
            v.extend_from_slice(&d.port().to_be_bytes());
        }
        (s, d) => {
            let to6 = |a: SocketAddr| match a.ip() {
                IpAddr::V6(x) => x,
                IpAddr::V4(x) => x.to_ipv6_mapped(),
            };
            v.push(0x20 | t);
            v.extend_from_slice(&36u16.to_be_bytes());
            v.extend_from_slice(&to6(s).octets());
            v.extend_from_slice(&to6(d).octets());
            v.extend_from_slice(&s.port().to_be_bytes());
            v.extend_from_slice(&d.port().to_be_bytes());
        }
    }
    v
}

/// version 2, LOCAL command: no address is announced
pub fn proxy_v2_local() -> Vec<u8> {
    let mut v = V2_SIG.to_vec();
    v.push(0x20);
    v.push(0x00);
    v.extend_from_slice(&0u16.to_be_bytes());
    v
}

// ---------------------------------------------------------------------------------------------
// blocking reference client
// ---------------------------------------------------------------------------------------------

#[derive(Debug, Clone, PartialEq)]
pub enum RecvErr {
    /// the peer closed (EOF or reset)
    Closed,
    Timeout,
    Garbled(String),
}

pub struct NetClient {
    pub stream: TcpStream,
    pub enc: Option<Cfb8>,
    pub dec: Option<Cfb8>,
    buf: Vec<u8>,
    pub phase: Phase,
    /// raw bytes received so far (before decryption)
    pub received: usize,
    pub connected_at: Instant,
    pub enc_req: Option<(Vec<u8>, Vec<u8>, bool)>,
}

/// connects from a specific local IP (127.0.0.x)
pub fn connect_from(local_ip: &str, port: u16) -> std::io::Result<TcpStream> {
    let rt = crate::mocks::rt();
    let local: SocketAddr = format!("{local_ip}:0").parse().unwrap();
    let stream = rt.block_on(async move {
        let sock = tokio::net::TcpSocket::new_v4()?;
        sock.bind(local)?;
        sock.connect(format!("127.0.0.1:{port}").parse().unwrap()).await
    })?;
    let std = stream.into_std()?;
    std.set_nonblocking(false)?;
    Ok(std)
}

impl NetClient {
    pub fn connect(port: u16) -> std::io::Result<NetClient> {
        let stream = TcpStream::connect(("127.0.0.1", port))?;
        Self::from_stream(stream)
    }

    pub fn from_stream(stream: TcpStream) -> std::io::Result<NetClient> {
        stream.set_nodelay(true)?;
        Ok(NetClient { stream, enc: None, dec: None, buf: Vec::new(), phase: Phase::Login, received: 0, connected_at: Instant::now(), enc_req: None })
    }

    pub fn local_addr(&self) -> SocketAddr {
        self.stream.local_addr().unwrap()
    }

    /// raw bytes, no cipher
    pub fn write_raw(&mut self, bytes: &[u8]) -> std::io::Result<()> {
        self.stream.write_all(bytes)
    }

    pub fn send_bytes(&mut self, plain: &[u8]) -> std::io::Result<()> {
        let wire = match self.enc.as_mut() {
            Some(e) => e.encrypt(plain),
            None => plain.to_vec(),
        };
        self.stream.write_all(&wire)
    }

    pub fn send(&mut self, pkt: &Pkt) -> std::io::Result<()> {
        self.send_bytes(&pkt.frame())
    }

    pub fn enable_encryption(&mut self, secret: &[u8; 16]) {
        self.enc = Some(Cfb8::new(secret));
        self.dec = Some(Cfb8::new(secret));
    }

    /// next clientbound packet, waiting at most `timeout`
    pub fn recv(&mut self, timeout: Duration) -> Result<Pkt, RecvErr> {
        let deadline = Instant::now() + timeout;
        loop {
            match rc::split_frame(&self.buf) {
                Ok(Some(f)) => {
                    self.buf.drain(..f.wire_len);
                    let pkt = Pkt::decode(self.phase, Dir::Cb, f.id, &f.body).map_err(|e| RecvErr::Garbled(format!("{e:?} (id {:#x})", f.id)))?;
                    if let Pkt::EncryptionRequest { public_key, verify_token, should_authenticate, .. } = &pkt {
                        self.enc_req = Some((public_key.clone(), verify_token.clone(), *should_authenticate));
                    }
                    if matches!(pkt, Pkt::LoginSuccess { .. }) {
                        self.phase = Phase::Config;
                    }
                    return Ok(pkt);
                }
                Ok(None) => {}
                Err(e) => return Err(RecvErr::Garbled(format!("{e:?}"))),
            }
            let now = Instant::now();
            if now >= deadline {
                return Err(RecvErr::Timeout);
            }
            let _ = self.stream.set_read_timeout(Some((deadline - now).max(Duration::from_millis(1))));
            let mut tmp = [0u8; 4096];
            match self.stream.read(&mut tmp) {
                Ok(0) => return Err(RecvErr::Closed),
                Ok(n) => {
                    self.received += n;
                    let p = match self.dec.as_mut() {
                        Some(d) => d.decrypt(&tmp[..n]),
                        None => tmp[..n].to_vec(),
                    };
                    self.buf.extend_from_slice(&p);
                }
                Err(e) if matches!(e.kind(), std::io::ErrorKind::WouldBlock | std::io::ErrorKind::TimedOut) => return Err(RecvErr::Timeout),
                Err(_) => return Err(RecvErr::Closed),
            }
        }
    }

    /// waits until the peer closes; returns (time of close since connect, bytes received meanwhile); None on timeout
    pub fn wait_closed(&mut self, timeout: Duration) -> Option<(Duration, usize)> {
        let deadline = Instant::now() + timeout;
        let mut extra = 0usize;
        loop {
            let now = Instant::now();
            if now >= deadline {
                return None;
            }
            let _ = self.stream.set_read_timeout(Some((deadline - now).max(Duration::from_millis(1))));
            let mut tmp = [0u8; 4096];
            match self.stream.read(&mut tmp) {
                Ok(0) => return Some((self.connected_at.elapsed(), extra)),
                Ok(n) => {
                    extra += n;
                    self.received += n;
                }
                Err(e) if matches!(e.kind(), std::io::ErrorKind::WouldBlock | std::io::ErrorKind::TimedOut) => return None,
                Err(_) => return Some((self.connected_at.elapsed(), extra)),
            }
        }
    }

    /// handshake + status request + ping; Ok(true) if both replies arrived
    pub fn status_exchange(&mut self, host: &str, timeout: Duration) -> Result<(), RecvErr> {
        self.phase = Phase::Status;
        let io = |r: std::io::Result<()>| r.map_err(|_| RecvErr::Closed);
        io(self.send(&Pkt::Handshake { protocol: 770, host: host.to_string(), port: 25565, next: 1 }))?;
        io(self.send(&Pkt::StatusRequest))?;
        match self.recv(timeout)? {
            Pkt::StatusResponse { .. } => {}
            other => return Err(RecvErr::Garbled(format!("expected Status Response, got {}", other.kind()))),
        }
        io(self.send(&Pkt::StatusPing { payload: 0x5157 }))?;
        match self.recv(timeout)? {
            Pkt::StatusPong { payload: 0x5157 } => Ok(()),
            other => Err(RecvErr::Garbled(format!("expected Pong, got {}", other.kind()))),
        }
    }

    /// Login up to (and including) Login Success. `auth_cookie` answers the authentication cookie request.
    /// Returns should_authenticate of the Encryption Request.
    pub fn login_until_success(&mut self, intent: i32, name: &str, auth_cookie: Option<Vec<u8>>, timeout: Duration) -> Result<(bool, String), RecvErr> {
        self.phase = Phase::Login;
        let io = |r: std::io::Result<()>| r.map_err(|_| RecvErr::Closed);
        io(self.send(&Pkt::Handshake { protocol: 770, host: "net.example.org".into(), port: 25565, next: intent }))?;
        io(self.send(&Pkt::LoginStart { name: name.to_string(), uuid: Uuid::from_u128(0x4e45) }))?;
        let secret16: [u8; 16] = *b"net-shared-secre";
        let mut should_auth = true;
        loop {
            match self.recv(timeout)? {
                Pkt::LoginCookieRequest { key } => {
                    let payload = if key == crate::cookie::AUTH_KEY { auth_cookie.clone() } else { None };
                    io(self.send(&Pkt::LoginCookieResponse { key, payload }))?;
                }
                Pkt::EncryptionRequest { public_key, verify_token, should_authenticate, .. } => {
                    should_auth = should_authenticate;
                    let key = RsaPub::from_spki_der(&public_key).ok_or(RecvErr::Garbled("public key".into()))?;
                    let pad = [0x33u8, 0x44, 0x55];
                    let resp = Pkt::EncryptionResponse { secret: key.encrypt_pkcs1(&secret16, &pad).unwrap(), token: key.encrypt_pkcs1(&verify_token, &pad).unwrap() };
                    io(self.send(&resp))?;
                    self.enable_encryption(&secret16);
                }
                Pkt::LoginSuccess { name, .. } => return Ok((should_auth, name)),
                other => return Err(RecvErr::Garbled(format!("unexpected {} during login", other.kind()))),
            }
        }
    }
}
