pub mod checks;
pub mod refcodec;
pub mod refcrypto;
pub mod runner;
