pub mod checks;
pub mod cookie;
pub mod gens;
pub mod refcodec;
pub mod refcrypto;
pub mod runner;
pub mod sim;
pub mod timed;
