use std::path::PathBuf;
use vh::checks;
use vh::runner::{self, Check, Tier};

#[global_allocator]
static ALLOC: vh::sim::MeterAlloc = vh::sim::MeterAlloc;

fn smoke() -> i32 {
    use vh::sim::*;
    let cfg = ConnCfg { secret: Some(b"topsecret".to_vec()), ..Default::default() };
    let mut ad = AdapterScript::default();
    ad.discovery = Some(vec![TargetSpec { identifier: "lobby-1".into(), addr: "[2001:db8::1]:25566".into(), meta: Default::default() }]);
    ad.discovery_ms = 20_000;
    let script = LoginScript::default();
    let out = run_sim(&cfg, &ad, &TransportScript::default(), 7, 1000, vh::client_fn!(|c| drive_login(c, &script).await));
    for e in &out.events {
        println!("{e:?}");
    }
    println!("end: {} max_alloc={} pulled={} broken={:?}", out.end_label(), out.max_alloc, out.pulled, out.stream_broken);
    0
}

fn usage() -> ! {
    eprintln!("usage: verif <ID> [--tier quick|thorough] [--seed N] | verif <ID> --replay <file>");
    std::process::exit(2)
}

fn dispatch<C: Check>(check: C, tier: Tier, seed: u64, replay: Option<PathBuf>) -> i32 {
    match replay {
        Some(p) => runner::replay(&check, &p),
        None => runner::run_check(&check, tier, seed),
    }
}

fn main() {
    let args: Vec<String> = std::env::args().skip(1).collect();
    if args.is_empty() {
        usage();
    }
    let id = args[0].to_uppercase();
    if id == "MINE11" {
        // one-off helper: find (server id "", secret 0x42 x 16, key = counter) whose SHA-1 digest ends in 32 zero bits,
        // one with the top bit set and one without; prints regression cases for corpus/C11
        let threads = 16u64;
        let found_neg = std::sync::atomic::AtomicBool::new(false);
        let found_pos = std::sync::atomic::AtomicBool::new(false);
        std::thread::scope(|sc| {
            for t in 0..threads {
                let (found_neg, found_pos) = (&found_neg, &found_pos);
                sc.spawn(move || {
                    let secret = [0x42u8; 16];
                    let mut i = t;
                    while !(found_neg.load(std::sync::atomic::Ordering::Relaxed) && found_pos.load(std::sync::atomic::Ordering::Relaxed)) {
                        let key = i.to_be_bytes();
                        let d = vh::refcrypto::sha1(&[b"", &secret, &key]);
                        if d[16] == 0 && d[17] == 0 && d[18] == 0 && d[19] == 0 {
                            let neg = d[0] & 0x80 != 0;
                            let flag = if neg { found_neg } else { found_pos };
                            if !flag.swap(true, std::sync::atomic::Ordering::Relaxed) {
                                println!("{{\"server_id\":\"\",\"secret\":\"{}\",\"key\":\"{}\",\"via_adapter\":false}}  # digest {}", vh::refcodec::to_hex(&secret), vh::refcodec::to_hex(&key), vh::refcodec::to_hex(&d));
                            }
                        }
                        i += threads;
                    }
                });
            }
        });
        std::process::exit(0);
    }
    if id == "SERVE" {
        // child mode of the layered-configuration family: Config::read() + passage::start
        std::process::exit(vh::layers::serve());
    }
    let mut tier = match std::env::var("VERIF_TIER").as_deref() {
        Ok("thorough") => Tier::Thorough,
        _ => Tier::Quick,
    };
    let mut seed: u64 = std::env::var("VERIF_SEED").ok().and_then(|s| s.parse().ok()).unwrap_or(1);
    let mut replay = None;
    let mut i = 1;
    while i < args.len() {
        match args[i].as_str() {
            "--tier" => {
                i += 1;
                tier = match args.get(i).map(String::as_str) {
                    Some("quick") => Tier::Quick,
                    Some("thorough") => Tier::Thorough,
                    _ => usage(),
                };
            }
            "--seed" => {
                i += 1;
                seed = args.get(i).and_then(|s| s.parse().ok()).unwrap_or_else(|| usage());
            }
            "--replay" => {
                i += 1;
                replay = Some(PathBuf::from(args.get(i).unwrap_or_else(|| usage())));
            }
            _ => usage(),
        }
        i += 1;
    }

    runner::install_quiet_panic_hook();
    // the process-wide keep-alive time anchor must predate every virtual clock
    let _ = passage_protocol::crypto::generate_keep_alive();

    // watchdog: a hang is reported as exit 2 (inconclusive), never as a violation
    let limit = std::env::var("VERIF_WATCHDOG_S")
        .ok()
        .and_then(|s| s.parse().ok())
        .unwrap_or(match tier {
            Tier::Quick => 1500u64,
            Tier::Thorough => 6 * 3600,
        });
    std::thread::spawn(move || {
        std::thread::sleep(std::time::Duration::from_secs(limit));
        eprintln!("watchdog: check exceeded {limit}s wall clock — inconclusive");
        std::process::exit(2);
    });

    let code = match id.as_str() {
        "SMOKE" => smoke(),
        "C01" => dispatch(checks::auth::C01, tier, seed, replay),
        "C02" => dispatch(checks::auth::C02, tier, seed, replay),
        "C03" => dispatch(checks::c03::C03, tier, seed, replay),
        "C04" => dispatch(checks::c04::C04, tier, seed, replay),
        "C05" => dispatch(checks::c05::C05, tier, seed, replay),
        "C06" => dispatch(checks::c06::C06, tier, seed, replay),
        "C07" => dispatch(checks::c07::C07, tier, seed, replay),
        "C08" => dispatch(checks::c08::C08, tier, seed, replay),
        "C09" => dispatch(checks::c09::C09, tier, seed, replay),
        "C10" => dispatch(checks::c10::C10, tier, seed, replay),
        "C11" => dispatch(checks::c11::C11, tier, seed, replay),
        "C12" => dispatch(checks::c12::C12, tier, seed, replay),
        "C13" => dispatch(checks::c13::C13, tier, seed, replay),
        "C14" => dispatch(checks::c14::C14, tier, seed, replay),
        "C15" => dispatch(checks::c15::C15, tier, seed, replay),
        "C16" => dispatch(checks::c16::C16, tier, seed, replay),
        "C17" => dispatch(checks::c17::C17, tier, seed, replay),
        "C18" => dispatch(checks::c18::C18, tier, seed, replay),
        "C19" => dispatch(checks::c19::C19, tier, seed, replay),
        "C20" => dispatch(checks::c20::C20, tier, seed, replay),
        _ => {
            eprintln!("unknown property id {id}");
            2
        }
    };
    std::process::exit(code);
}
