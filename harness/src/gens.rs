//! Shared proptest strategies for the simulator-based checks.

use crate::cookie::Identity;
use crate::sim::{PropSpec, TargetSpec};
use proptest::prelude::*;
use std::collections::BTreeMap;
use uuid::Uuid;

/// player names: vanilla-like, Unicode, empty, long (<= 40 chars)
pub fn name() -> BoxedStrategy<String> {
    prop_oneof![
        4 => "[A-Za-z0-9_]{1,16}",
        2 => "\\PC{0,40}",
        1 => Just(String::new()),
        1 => Just("Notch".to_string()),
        1 => "[A-Za-z0-9_&=#?%+/ ]{1,24}",
    ]
    .boxed()
}

pub fn uuid() -> BoxedStrategy<Uuid> {
    prop_oneof![4 => any::<u128>().prop_map(Uuid::from_u128), 1 => Just(Uuid::nil()), 1 => Just(Uuid::max())].boxed()
}

pub fn props() -> BoxedStrategy<Vec<PropSpec>> {
    let p = ("[a-z]{1,10}", "\\PC{0,60}", proptest::option::of("[A-Za-z0-9+/=]{0,40}")).prop_map(|(name, value, signature)| PropSpec { name, value, signature });
    prop_oneof![2 => Just(Vec::new()), 2 => proptest::collection::vec(p, 1..=3)].boxed()
}

pub fn identity() -> BoxedStrategy<Identity> {
    (name(), uuid(), props()).prop_map(|(name, uuid, properties)| Identity { name, uuid, properties }).boxed()
}

pub fn ipv4() -> BoxedStrategy<String> {
    prop_oneof![
        3 => (1u8..=223, any::<u8>(), any::<u8>(), 1u8..=254).prop_map(|(a, b, c, d)| format!("{a}.{b}.{c}.{d}")),
        1 => Just("127.0.0.1".to_string()),
        1 => Just("10.0.0.1".to_string()),
        1 => Just("255.255.255.255".to_string()),
        1 => Just("0.0.0.0".to_string()),
    ]
    .boxed()
}

pub fn ipv6() -> BoxedStrategy<String> {
    prop_oneof![
        2 => any::<[u16; 8]>().prop_map(|s| std::net::Ipv6Addr::new(s[0], s[1], s[2], s[3], s[4], s[5], s[6], s[7]).to_string()),
        1 => Just("::1".to_string()),
        1 => Just("::".to_string()),
        1 => Just("2001:db8::1".to_string()),
        1 => Just("fe80::1".to_string()),
        1 => (any::<u8>(), any::<u8>(), any::<u8>(), any::<u8>()).prop_map(|(a, b, c, d)| format!("::ffff:{a}.{b}.{c}.{d}")),
    ]
    .boxed()
}

pub fn port() -> BoxedStrategy<u16> {
    prop_oneof![2 => proptest::sample::select(vec![0u16, 1, 80, 25565, 25566, 65535, 127, 128, 16383, 16384]), 2 => any::<u16>()].boxed()
}

/// "ip:port" / "[v6]:port"
pub fn sockaddr() -> BoxedStrategy<String> {
    prop_oneof![
        3 => (ipv4(), port()).prop_map(|(ip, p)| format!("{ip}:{p}")),
        2 => (ipv6(), port()).prop_map(|(ip, p)| format!("[{ip}]:{p}")),
    ]
    .boxed()
}

/// a client address (IPv4, IPv6, also IPv4-mapped IPv6). Whether an IPv4 address and its IPv4-mapped form
/// are "the same IP" is unspecified: callers never pair the two (see `same_canonical_ip`).
pub fn client_addr() -> BoxedStrategy<String> {
    sockaddr()
}

/// true if the two socket addresses denote different textual IPs that are the same after canonicalisation
pub fn same_canonical_ip(a: &str, b: &str) -> bool {
    match (a.parse::<std::net::SocketAddr>(), b.parse::<std::net::SocketAddr>()) {
        (Ok(a), Ok(b)) => a.ip() != b.ip() && a.ip().to_canonical() == b.ip().to_canonical(),
        _ => false,
    }
}

pub fn meta() -> BoxedStrategy<BTreeMap<String, String>> {
    proptest::collection::btree_map("[a-z]{1,8}", "[ -~]{0,12}", 0..4).boxed()
}

pub fn target() -> BoxedStrategy<TargetSpec> {
    (prop_oneof![3 => "[a-z]{1,8}-[0-9]{1,3}", 1 => "\\PC{0,20}", 1 => Just("dup".to_string())], sockaddr(), meta())
        .prop_map(|(identifier, addr, meta)| TargetSpec { identifier, addr: normalise_addr(&addr), meta })
        .boxed()
}

/// canonical textual form (what `SocketAddr::to_string` prints), so specs compare with ==
pub fn normalise_addr(a: &str) -> String {
    a.parse::<std::net::SocketAddr>().map(|s| s.to_string()).unwrap_or_else(|_| a.to_string())
}

/// 0..=max targets, with a raised chance of duplicate identifiers / addresses
pub fn targets(max: usize) -> BoxedStrategy<Vec<TargetSpec>> {
    (proptest::collection::vec(target(), 0..=max), any::<u8>())
        .prop_map(|(mut v, dup)| {
            if v.len() >= 2 && dup % 4 == 0 {
                let a = v[0].addr.clone();
                v[1].addr = a;
            }
            if v.len() >= 2 && dup % 5 == 0 {
                let id = v[0].identifier.clone();
                v[1].identifier = id;
            }
            v
        })
        .boxed()
}

pub fn secret_opt() -> BoxedStrategy<Option<Vec<u8>>> {
    prop_oneof![
        2 => Just(None),
        1 => Just(Some(Vec::new())),
        4 => proptest::collection::vec(any::<u8>(), 1..=64).prop_map(Some),
        1 => proptest::collection::vec(any::<u8>(), 65..=100).prop_map(Some),
    ]
    .boxed()
}

pub fn shared_secret16() -> BoxedStrategy<Vec<u8>> {
    proptest::collection::vec(any::<u8>(), 16..=16).boxed()
}

pub fn host() -> BoxedStrategy<String> {
    prop_oneof![2 => Just("play.example.org".to_string()), 2 => "[a-z0-9.-]{0,30}", 1 => "\\PC{0,30}"].boxed()
}
