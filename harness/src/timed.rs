//! Timed scenarios for C07 and C08: a login that proceeds promptly, then a configuration phase in
//! which the client's frames are due at scripted virtual instants (Login Acknowledged, Client
//! Information, keep-alive echoes per policy, unsolicited echoes, plugin messages) while the adapters
//! take scripted time. A segmentation plan can deliver any frame in several segments, the last byte
//! exactly at the frame's due instant.

use crate::refcodec::{self as rc, Pkt};
use crate::sim::{self, AdapterScript, Client, ConnCfg, EncResp, SimOutcome, TransportScript};
use serde::{Deserialize, Serialize};
use std::collections::{BTreeMap, BinaryHeap};
use std::sync::{Arc, Mutex};

pub const PERIOD: u64 = 16_000;

#[derive(Clone, Debug, Serialize, Deserialize, PartialEq)]
pub enum Echo {
    /// echo at the instant the keep-alive arrives
    Prompt,
    /// echo d ms later (d <= 15995)
    Delay(u16),
    Never,
    /// echo a different id (id ^ mask, mask != 0)
    WrongId(u64),
    /// echo now and once more d ms later
    Duplicate(u16),
    /// echo the previous keep-alive's id
    Previous,
    /// a late echo that is on its way when the deadline passes: its first n bytes arrive 200 ms before the next
    /// Keep Alive is due, the rest 300 ms after
    LateSplit(u8),
}

#[derive(Clone, Debug, Serialize, Deserialize, PartialEq)]
pub struct Extra {
    /// due instant, ms after Login Acknowledged is due
    pub after_ack_ms: u32,
    pub kind: ExtraKind,
}

#[derive(Clone, Debug, Serialize, Deserialize, PartialEq)]
pub enum ExtraKind {
    /// a plugin message with this many payload bytes
    Plugin(u16),
    /// an unsolicited keep-alive echo with this id
    Echo(u64),
}

#[derive(Clone, Debug, Serialize, Deserialize, PartialEq)]
pub struct Scenario {
    pub cfg: ConnCfg,
    pub adapters: AdapterScript,
    pub intent: i32,
    pub locale: String,
    /// Login Acknowledged is due this long after Login Success
    pub ack_delay_ms: u32,
    /// Client Information is due this long after Login Acknowledged; None = never sent
    pub info_delay_ms: Option<u32>,
    /// policy for the k-th keep-alive (the last entry repeats)
    pub echo: Vec<Echo>,
    pub extras: Vec<Extra>,
    /// the client gives up (closes) this long after Login Acknowledged if nothing ended the exchange
    pub horizon_ms: u32,
}

/// one client frame of the configuration phase
#[derive(Clone, Debug, Serialize, PartialEq)]
pub struct FrameRec {
    pub idx: usize,
    pub label: String,
    pub scheduled_at: u64,
    pub due: u64,
    pub len: usize,
}

#[derive(Clone, Debug, Default)]
pub struct Timeline {
    pub frames: Vec<FrameRec>,
    pub login_success_at: Option<u64>,
    pub ack_due: Option<u64>,
    pub info_due: Option<u64>,
    /// (t, id) of keep-alive echoes sent, as the client meant them
    pub echoes: Vec<(u64, u64)>,
    pub closed_at: Option<u64>,
}

/// per frame index: cut points (offset into the frame, lead before the due instant), leads descending
pub type SegPlan = BTreeMap<usize, Vec<(usize, u64)>>;

#[derive(PartialEq, Eq)]
struct Due {
    at: u64,
    seq: u64,
    bytes: Vec<u8>,
    last_of: Option<usize>,
}

impl Ord for Due {
    fn cmp(&self, o: &Self) -> std::cmp::Ordering {
        // min-heap on (at, seq)
        (o.at, o.seq).cmp(&(self.at, self.seq))
    }
}
impl PartialOrd for Due {
    fn partial_cmp(&self, o: &Self) -> Option<std::cmp::Ordering> {
        Some(self.cmp(o))
    }
}

struct Sched {
    heap: BinaryHeap<Due>,
    seq: u64,
    next_idx: usize,
    plan: SegPlan,
    tl: Arc<Mutex<Timeline>>,
}

impl Sched {
    /// records a frame that was already sent (pipelined behind the Encryption Response)
    fn record_sent(&mut self, now: u64, due: u64, label: &str, len: usize) {
        let idx = self.next_idx;
        self.next_idx += 1;
        self.tl.lock().unwrap().frames.push(FrameRec { idx, label: label.to_string(), scheduled_at: now, due, len });
    }

    fn schedule(&mut self, now: u64, due: u64, label: &str, frame: Vec<u8>) {
        let idx = self.next_idx;
        self.next_idx += 1;
        self.tl.lock().unwrap().frames.push(FrameRec { idx, label: label.to_string(), scheduled_at: now, due, len: frame.len() });
        let mut from = 0usize;
        if let Some(cuts) = self.plan.get(&idx) {
            for (off, lead) in cuts {
                let off = (*off).min(frame.len());
                let at = due.saturating_sub(*lead).max(now);
                if off > from && at < due {
                    self.seq += 1;
                    self.heap.push(Due { at, seq: self.seq, bytes: frame[from..off].to_vec(), last_of: None });
                    from = off;
                }
            }
        }
        self.seq += 1;
        self.heap.push(Due { at: due.max(now), seq: self.seq, bytes: frame[from..].to_vec(), last_of: Some(idx) });
    }
}

impl Sched {
    /// a frame whose first `n` bytes are delivered at `early` and the rest at `due` (no segmentation plan applies)
    fn schedule_split(&mut self, now: u64, early: u64, due: u64, label: &str, frame: Vec<u8>, n: usize) {
        let idx = self.next_idx;
        self.next_idx += 1;
        self.tl.lock().unwrap().frames.push(FrameRec { idx, label: label.to_string(), scheduled_at: now, due, len: frame.len() });
        let n = n.clamp(1, frame.len() - 1);
        self.seq += 1;
        self.heap.push(Due { at: early.max(now), seq: self.seq, bytes: frame[..n].to_vec(), last_of: None });
        self.seq += 1;
        self.heap.push(Due { at: due.max(now), seq: self.seq, bytes: frame[n..].to_vec(), last_of: Some(idx) });
    }
}

fn plugin_frame(n: u16) -> Vec<u8> {
    let mut w = rc::W::new();
    w.string("verif:pad");
    w.raw(&vec![0x2a; n as usize]);
    rc::frame(0x02, &w.0)
}

/// The client. Returns when the server ended the exchange or the horizon passed.
pub async fn timed_client(c: &mut Client, sc: &Scenario, plan: SegPlan, tl: Arc<Mutex<Timeline>>, pipeline: u8) {
    let secret16: [u8; 16] = *b"fedcba9876543210";
    c.cb_phase = rc::Phase::Login;
    c.send(&Pkt::Handshake { protocol: 770, host: "timed.example.org".into(), port: 25565, next: sc.intent });
    c.send(&Pkt::LoginStart { name: "Timed".into(), uuid: uuid::Uuid::from_u128(0x71ED) });
    let mut sched = Sched { heap: BinaryHeap::new(), seq: 0, next_idx: 0, plan, tl: Arc::clone(&tl) };
    let mut ka_count = 0usize;
    let mut prev_id: Option<u64> = None;
    let mut horizon: Option<u64> = None;
    // frames sent early, in the same segment as the Encryption Response (only those that are due at the
    // instant of Login Success anyway, so that the timeline is unchanged)
    let early_ack = pipeline >= 1 && sc.ack_delay_ms == 0;
    let early_info = early_ack && pipeline >= 2 && sc.info_delay_ms == Some(0);
    loop {
        // deliver everything that is due
        let now = c.now_ms();
        while sched.heap.peek().is_some_and(|d| d.at <= now) {
            let d = sched.heap.pop().unwrap();
            c.push(&d.bytes);
            if let Some(i) = d.last_of {
                c.note_sb(&format!("frame{i}"));
            }
        }
        if horizon.is_some_and(|h| now >= h) {
            tl.lock().unwrap().closed_at = Some(now);
            c.close();
            while c.next().await.is_some() {}
            return;
        }
        let wake = match (sched.heap.peek().map(|d| d.at), horizon) {
            (Some(a), Some(h)) => a.min(h),
            (Some(a), None) => a,
            (None, Some(h)) => h,
            (None, None) => u64::MAX / 4,
        };
        let ev = if wake == u64::MAX / 4 { c.next().await } else { c.next_until(wake).await };
        let Some((t, pkt)) = ev else {
            if c.server_done() || c.stream_broken.is_some() {
                return;
            }
            continue; // timer
        };
        match pkt {
            Pkt::LoginCookieRequest { key } => c.send(&Pkt::LoginCookieResponse { key, payload: None }),
            Pkt::EncryptionRequest { .. } => {
                if let Some(resp) = c.encryption_response(&EncResp::Honest, &secret16) {
                    c.send(&resp);
                    c.enable_encryption(&secret16);
                    if early_ack {
                        c.push(&Pkt::LoginAck.frame());
                    }
                    if early_info {
                        c.push(&sim::client_information(&sc.locale).frame());
                    }
                }
            }
            Pkt::LoginSuccess { .. } => {
                let now = c.now_ms();
                let ack = now + u64::from(sc.ack_delay_ms);
                {
                    let mut g = tl.lock().unwrap();
                    g.login_success_at = Some(t);
                    g.ack_due = Some(ack);
                }
                if early_ack {
                    sched.record_sent(now, ack, "LoginAck", Pkt::LoginAck.frame().len());
                } else {
                    sched.schedule(now, ack, "LoginAck", Pkt::LoginAck.frame());
                }
                if let Some(d) = sc.info_delay_ms {
                    let info = ack + u64::from(d);
                    tl.lock().unwrap().info_due = Some(info);
                    if early_info {
                        sched.record_sent(now, info, "ClientInformation", sim::client_information(&sc.locale).frame().len());
                    } else {
                        sched.schedule(now, info, "ClientInformation", sim::client_information(&sc.locale).frame());
                    }
                }
                for e in &sc.extras {
                    let due = ack + u64::from(e.after_ack_ms);
                    match &e.kind {
                        ExtraKind::Plugin(n) => sched.schedule(now, due, "Plugin", plugin_frame(*n)),
                        ExtraKind::Echo(id) => {
                            tl.lock().unwrap().echoes.push((due, *id));
                            sched.schedule(now, due, "UnsolicitedEcho", Pkt::CfgKeepAliveSb { id: *id }.frame());
                        }
                    }
                }
                horizon = Some(ack + u64::from(sc.horizon_ms));
            }
            Pkt::CfgKeepAliveCb { id } => {
                let now = c.now_ms();
                let pol = sc.echo.get(ka_count).or(sc.echo.last()).cloned().unwrap_or(Echo::Prompt);
                ka_count += 1;
                let echo_at = |sched: &mut Sched, at: u64, eid: u64| {
                    tl.lock().unwrap().echoes.push((at, eid));
                    sched.schedule(now, at, "Echo", Pkt::CfgKeepAliveSb { id: eid }.frame());
                };
                match pol {
                    Echo::Prompt => echo_at(&mut sched, now, id),
                    Echo::Delay(d) => echo_at(&mut sched, now + u64::from(d), id),
                    Echo::Never => {}
                    Echo::WrongId(mask) => echo_at(&mut sched, now, id ^ mask.max(1)),
                    Echo::Duplicate(d) => {
                        echo_at(&mut sched, now, id);
                        echo_at(&mut sched, now + u64::from(d.max(1)), id);
                    }
                    Echo::Previous => echo_at(&mut sched, now, prev_id.unwrap_or(id ^ 1)),
                    Echo::LateSplit(n) => {
                        let due = now + PERIOD + 300;
                        tl.lock().unwrap().echoes.push((due, id));
                        sched.schedule_split(now, now + PERIOD - 200, due, "Echo", Pkt::CfgKeepAliveSb { id }.frame(), usize::from(n));
                    }
                }
                prev_id = Some(id);
            }
            Pkt::CfgTransfer { .. } | Pkt::CfgDisconnect { .. } | Pkt::LoginDisconnect { .. } => {
                // terminal: nothing more is sent; wait for the handler to end
                while c.next().await.is_some() {}
                return;
            }
            _ => {}
        }
    }
}

pub fn run(sc: &Scenario, transport: &TransportScript, plan: &SegPlan, select_seed: u64) -> (SimOutcome, Timeline) {
    run_pipelined(sc, transport, plan, select_seed, 0)
}

pub fn run_pipelined(sc: &Scenario, transport: &TransportScript, plan: &SegPlan, select_seed: u64, pipeline: u8) -> (SimOutcome, Timeline) {
    let tl = Arc::new(Mutex::new(Timeline::default()));
    let tl2 = Arc::clone(&tl);
    let sc2 = sc.clone();
    let plan2 = plan.clone();
    let out = sim::run_sim(&sc.cfg, &sc.adapters, transport, select_seed, 40_000, crate::client_fn!(|c| timed_client(c, &sc2, plan2, tl2, pipeline).await));
    let t = tl.lock().unwrap().clone();
    (out, t)
}

/// time of routing completion predicted from the script: Client Information due + the three latencies
pub fn route_done(sc: &Scenario, tl: &Timeline) -> Option<u64> {
    let info = tl.info_due?;
    sc.adapters.discovery.as_ref()?;
    Some(info + u64::from(sc.adapters.discovery_ms) + u64::from(sc.adapters.filter_ms) + u64::from(sc.adapters.strategy_ms))
}

/// the instants the generators must not place anything on (ties are not generated)
pub fn is_tick(t: u64) -> bool {
    t % PERIOD == 0
}
