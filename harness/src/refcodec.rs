//! Reference codec for the Minecraft Java protocol (handshake, status, login, configuration),
//! written from the protocol description, synchronous and slice based. It is the oracle for C09 and
//! the codec of the simulated client, so that no oracle depends on `passage-packets`.

use serde::{Deserialize, Serialize};
use serde_json::Value;
use uuid::Uuid;

/// serde helper: byte vectors as lowercase hex strings (compact replay files)
pub mod hexbytes {
    use serde::{Deserialize, Deserializer, Serializer};
    pub fn serialize<S: Serializer>(v: &[u8], s: S) -> Result<S::Ok, S::Error> {
        s.serialize_str(&super::to_hex(v))
    }
    pub fn deserialize<'de, D: Deserializer<'de>>(d: D) -> Result<Vec<u8>, D::Error> {
        let s = String::deserialize(d)?;
        super::from_hex(&s).ok_or_else(|| serde::de::Error::custom("bad hex"))
    }
}

pub mod opthexbytes {
    use serde::{Deserialize, Deserializer, Serializer};
    pub fn serialize<S: Serializer>(v: &Option<Vec<u8>>, s: S) -> Result<S::Ok, S::Error> {
        match v {
            Some(v) => s.serialize_some(&super::to_hex(v)),
            None => s.serialize_none(),
        }
    }
    pub fn deserialize<'de, D: Deserializer<'de>>(d: D) -> Result<Option<Vec<u8>>, D::Error> {
        let s = Option::<String>::deserialize(d)?;
        match s {
            None => Ok(None),
            Some(s) => super::from_hex(&s).map(Some).ok_or_else(|| serde::de::Error::custom("bad hex")),
        }
    }
}

pub fn to_hex(v: &[u8]) -> String {
    let mut s = String::with_capacity(v.len() * 2);
    for b in v {
        s.push(char::from_digit(u32::from(b >> 4), 16).unwrap());
        s.push(char::from_digit(u32::from(b & 15), 16).unwrap());
    }
    s
}

pub fn from_hex(s: &str) -> Option<Vec<u8>> {
    if s.len() % 2 != 0 {
        return None;
    }
    let b = s.as_bytes();
    let mut v = Vec::with_capacity(s.len() / 2);
    for i in (0..b.len()).step_by(2) {
        let hi = (b[i] as char).to_digit(16)?;
        let lo = (b[i + 1] as char).to_digit(16)?;
        v.push((hi * 16 + lo) as u8);
    }
    Some(v)
}

#[derive(Clone, Debug, PartialEq, Eq)]
pub enum DecodeError {
    Eof,
    VarIntTooLong,
    BadUtf8,
    NegativeLength,
    BadNbt(&'static str),
    UnknownId(i32),
    Trailing(usize),
    BadOrdinal(&'static str, i32),
}

// ---------------------------------------------------------------------------------------------
// primitive writer
// ---------------------------------------------------------------------------------------------

#[derive(Default, Clone, Debug)]
pub struct W(pub Vec<u8>);

impl W {
    pub fn new() -> Self {
        Self(Vec::new())
    }
    /// LEB128 over the two's-complement 32-bit pattern, at most 5 groups
    pub fn varint(&mut self, v: i32) -> &mut Self {
        let mut u = v as u32;
        loop {
            let g = (u & 0x7f) as u8;
            u >>= 7;
            if u == 0 {
                self.0.push(g);
                break;
            }
            self.0.push(g | 0x80);
        }
        self
    }
    /// LEB128 over the two's-complement 64-bit pattern, at most 10 groups
    pub fn varlong(&mut self, v: i64) -> &mut Self {
        let mut u = v as u64;
        loop {
            let g = (u & 0x7f) as u8;
            u >>= 7;
            if u == 0 {
                self.0.push(g);
                break;
            }
            self.0.push(g | 0x80);
        }
        self
    }
    pub fn u8(&mut self, v: u8) -> &mut Self {
        self.0.push(v);
        self
    }
    pub fn i8(&mut self, v: i8) -> &mut Self {
        self.0.push(v as u8);
        self
    }
    pub fn bool(&mut self, v: bool) -> &mut Self {
        self.0.push(u8::from(v));
        self
    }
    pub fn u16(&mut self, v: u16) -> &mut Self {
        self.0.extend_from_slice(&v.to_be_bytes());
        self
    }
    pub fn i32(&mut self, v: i32) -> &mut Self {
        self.0.extend_from_slice(&v.to_be_bytes());
        self
    }
    pub fn u64(&mut self, v: u64) -> &mut Self {
        self.0.extend_from_slice(&v.to_be_bytes());
        self
    }
    pub fn uuid(&mut self, v: &Uuid) -> &mut Self {
        self.0.extend_from_slice(v.as_bytes());
        self
    }
    pub fn raw(&mut self, v: &[u8]) -> &mut Self {
        self.0.extend_from_slice(v);
        self
    }
    /// String: VarInt byte length + UTF-8
    pub fn string(&mut self, s: &str) -> &mut Self {
        self.varint(s.len() as i32);
        self.0.extend_from_slice(s.as_bytes());
        self
    }
    /// byte array: VarInt length + bytes
    pub fn bytes(&mut self, b: &[u8]) -> &mut Self {
        self.varint(b.len() as i32);
        self.0.extend_from_slice(b);
        self
    }
    /// text component as network NBT (nameless root)
    pub fn text(&mut self, t: &Text) -> &mut Self {
        match t {
            Text::Plain(s) => {
                self.u8(8);
                self.u16(s.len() as u16);
                self.0.extend_from_slice(s.as_bytes());
            }
            Text::Compound(v) => {
                self.u8(nbt_tag_of(v));
                nbt_write_payload(&mut self.0, v);
            }
        }
        self
    }
}

// ---------------------------------------------------------------------------------------------
// primitive reader
// ---------------------------------------------------------------------------------------------

#[derive(Clone, Debug)]
pub struct R<'a> {
    pub b: &'a [u8],
    pub p: usize,
}

impl<'a> R<'a> {
    pub fn new(b: &'a [u8]) -> Self {
        Self { b, p: 0 }
    }
    pub fn remaining(&self) -> usize {
        self.b.len() - self.p
    }
    pub fn take(&mut self, n: usize) -> Result<&'a [u8], DecodeError> {
        if self.remaining() < n {
            return Err(DecodeError::Eof);
        }
        let s = &self.b[self.p..self.p + n];
        self.p += n;
        Ok(s)
    }
    pub fn u8(&mut self) -> Result<u8, DecodeError> {
        Ok(self.take(1)?[0])
    }
    pub fn i8(&mut self) -> Result<i8, DecodeError> {
        Ok(self.take(1)?[0] as i8)
    }
    /// the protocol defines booleans as 0x00 / 0x01; other values are reported as `raw`
    pub fn bool_raw(&mut self) -> Result<u8, DecodeError> {
        self.u8()
    }
    pub fn u16(&mut self) -> Result<u16, DecodeError> {
        Ok(u16::from_be_bytes(self.take(2)?.try_into().unwrap()))
    }
    pub fn i32(&mut self) -> Result<i32, DecodeError> {
        Ok(i32::from_be_bytes(self.take(4)?.try_into().unwrap()))
    }
    pub fn u64(&mut self) -> Result<u64, DecodeError> {
        Ok(u64::from_be_bytes(self.take(8)?.try_into().unwrap()))
    }
    pub fn uuid(&mut self) -> Result<Uuid, DecodeError> {
        Ok(Uuid::from_bytes(self.take(16)?.try_into().unwrap()))
    }
    pub fn varint(&mut self) -> Result<i32, DecodeError> {
        let mut v: u32 = 0;
        for i in 0..5 {
            let b = self.u8()?;
            v |= u32::from(b & 0x7f) << (7 * i);
            if b & 0x80 == 0 {
                return Ok(v as i32);
            }
        }
        Err(DecodeError::VarIntTooLong)
    }
    pub fn varlong(&mut self) -> Result<i64, DecodeError> {
        let mut v: u64 = 0;
        for i in 0..10 {
            let b = self.u8()?;
            v |= u64::from(b & 0x7f) << (7 * i);
            if b & 0x80 == 0 {
                return Ok(v as i64);
            }
        }
        Err(DecodeError::VarIntTooLong)
    }
    pub fn string(&mut self) -> Result<String, DecodeError> {
        let n = self.varint()?;
        if n < 0 {
            return Err(DecodeError::NegativeLength);
        }
        let s = self.take(n as usize)?;
        String::from_utf8(s.to_vec()).map_err(|_| DecodeError::BadUtf8)
    }
    pub fn bytes(&mut self) -> Result<Vec<u8>, DecodeError> {
        let n = self.varint()?;
        if n < 0 {
            return Err(DecodeError::NegativeLength);
        }
        Ok(self.take(n as usize)?.to_vec())
    }
    pub fn text(&mut self) -> Result<Text, DecodeError> {
        let tag = self.u8()?;
        if tag == 8 {
            let n = self.u16()? as usize;
            let s = self.take(n)?;
            return String::from_utf8(s.to_vec()).map(Text::Plain).map_err(|_| DecodeError::BadUtf8);
        }
        let v = nbt_read_payload(self, tag, 0)?;
        Ok(Text::Compound(v))
    }
}

// ---------------------------------------------------------------------------------------------
// text components / NBT
// ---------------------------------------------------------------------------------------------

/// A text component: a plain string (TAG_String) or a structured component (TAG_Compound) held as a
/// JSON tree. Booleans are NBT bytes; the tree contains only strings, booleans, numbers, lists and
/// objects.
#[derive(Clone, Debug, PartialEq, Serialize, Deserialize)]
pub enum Text {
    Plain(String),
    Compound(Value),
}

impl Text {
    /// how passage spells a component in its `String` fields
    pub fn to_passage_string(&self) -> String {
        match self {
            Text::Plain(s) => s.clone(),
            Text::Compound(v) => serde_json::to_string(v).unwrap(),
        }
    }
    /// interpretation of a passage `String` field as a component (what `write_text_component` does)
    pub fn from_passage_string(s: &str) -> Option<Text> {
        if s.starts_with('{') {
            serde_json::from_str(s).ok().map(Text::Compound)
        } else {
            Some(Text::Plain(s.to_string()))
        }
    }
    /// structural normal form: booleans become 0/1 numbers, integral floats become integers
    pub fn normalized(&self) -> Value {
        match self {
            Text::Plain(s) => Value::String(s.clone()),
            Text::Compound(v) => normalize_json(v),
        }
    }
}

pub fn normalize_json(v: &Value) -> Value {
    match v {
        Value::Bool(b) => Value::from(i64::from(*b)),
        Value::Array(a) => Value::Array(a.iter().map(normalize_json).collect()),
        Value::Object(o) => Value::Object(o.iter().map(|(k, v)| (k.clone(), normalize_json(v))).collect()),
        other => other.clone(),
    }
}

fn nbt_tag_of(v: &Value) -> u8 {
    match v {
        Value::Null => 0,
        Value::Bool(_) => 1,
        Value::Number(n) => {
            if n.is_f64() {
                6
            } else {
                4
            }
        }
        Value::String(_) => 8,
        Value::Array(_) => 9,
        Value::Object(_) => 10,
    }
}

fn nbt_write_payload(out: &mut Vec<u8>, v: &Value) {
    match v {
        Value::Null => {}
        Value::Bool(b) => out.push(u8::from(*b)),
        Value::Number(n) => {
            if let Some(f) = n.as_f64().filter(|_| n.is_f64()) {
                out.extend_from_slice(&f.to_be_bytes());
            } else {
                out.extend_from_slice(&n.as_i64().unwrap_or(0).to_be_bytes());
            }
        }
        Value::String(s) => {
            out.extend_from_slice(&(s.len() as u16).to_be_bytes());
            out.extend_from_slice(s.as_bytes());
        }
        Value::Array(a) => {
            let et = a.first().map(nbt_tag_of).unwrap_or(0);
            out.push(et);
            out.extend_from_slice(&(a.len() as i32).to_be_bytes());
            for e in a {
                nbt_write_payload(out, e);
            }
        }
        Value::Object(o) => {
            for (k, e) in o {
                out.push(nbt_tag_of(e));
                out.extend_from_slice(&(k.len() as u16).to_be_bytes());
                out.extend_from_slice(k.as_bytes());
                nbt_write_payload(out, e);
            }
            out.push(0);
        }
    }
}

fn nbt_read_payload(r: &mut R<'_>, tag: u8, depth: usize) -> Result<Value, DecodeError> {
    if depth > 64 {
        return Err(DecodeError::BadNbt("too deep"));
    }
    Ok(match tag {
        1 => Value::from(i64::from(r.i8()?)),
        2 => Value::from(i64::from(i16::from_be_bytes(r.take(2)?.try_into().unwrap()))),
        3 => Value::from(i64::from(r.i32()?)),
        4 => Value::from(i64::from_be_bytes(r.take(8)?.try_into().unwrap())),
        5 => Value::from(f64::from(f32::from_be_bytes(r.take(4)?.try_into().unwrap()))),
        6 => Value::from(f64::from_be_bytes(r.take(8)?.try_into().unwrap())),
        7 => {
            let n = r.i32()?;
            if n < 0 {
                return Err(DecodeError::NegativeLength);
            }
            Value::Array(r.take(n as usize)?.iter().map(|b| Value::from(i64::from(*b as i8))).collect())
        }
        8 => {
            let n = r.u16()? as usize;
            let s = r.take(n)?;
            Value::String(String::from_utf8(s.to_vec()).map_err(|_| DecodeError::BadUtf8)?)
        }
        9 => {
            let et = r.u8()?;
            let n = r.i32()?;
            if n < 0 {
                return Err(DecodeError::NegativeLength);
            }
            let mut a = Vec::new();
            for _ in 0..n {
                a.push(nbt_read_payload(r, et, depth + 1)?);
            }
            Value::Array(a)
        }
        10 => {
            let mut o = serde_json::Map::new();
            loop {
                let t = r.u8()?;
                if t == 0 {
                    break;
                }
                let n = r.u16()? as usize;
                let k = String::from_utf8(r.take(n)?.to_vec()).map_err(|_| DecodeError::BadUtf8)?;
                let v = nbt_read_payload(r, t, depth + 1)?;
                o.insert(k, v);
            }
            Value::Object(o)
        }
        11 => {
            let n = r.i32()?;
            if n < 0 {
                return Err(DecodeError::NegativeLength);
            }
            let mut a = Vec::new();
            for _ in 0..n {
                a.push(Value::from(i64::from(r.i32()?)));
            }
            Value::Array(a)
        }
        12 => {
            let n = r.i32()?;
            if n < 0 {
                return Err(DecodeError::NegativeLength);
            }
            let mut a = Vec::new();
            for _ in 0..n {
                a.push(Value::from(i64::from_be_bytes(r.take(8)?.try_into().unwrap())));
            }
            Value::Array(a)
        }
        _ => return Err(DecodeError::BadNbt("unknown tag")),
    })
}

// ---------------------------------------------------------------------------------------------
// packets
// ---------------------------------------------------------------------------------------------

#[derive(Clone, Copy, Debug, PartialEq, Eq, Hash, Serialize, Deserialize)]
pub enum Phase {
    Handshake,
    Status,
    Login,
    Config,
}

#[derive(Clone, Copy, Debug, PartialEq, Eq, Hash, Serialize, Deserialize)]
pub enum Dir {
    /// client → server
    Sb,
    /// server → client
    Cb,
}

/// Every packet of the four phases. Enum ordinals are carried as raw VarInts (`i32`) so that
/// out-of-range values can be expressed; booleans decoded from the wire are strict (0/1).
#[derive(Clone, Debug, PartialEq, Serialize, Deserialize)]
pub enum Pkt {
    // handshake, serverbound
    Handshake { protocol: i32, host: String, port: u16, next: i32 },
    // status
    StatusRequest,
    StatusPing { payload: u64 },
    StatusResponse { body: String },
    StatusPong { payload: u64 },
    // login, clientbound
    LoginDisconnect { reason: String },
    EncryptionRequest {
        server_id: String,
        #[serde(with = "hexbytes")]
        public_key: Vec<u8>,
        #[serde(with = "hexbytes")]
        verify_token: Vec<u8>,
        should_authenticate: bool,
    },
    LoginSuccess { uuid: Uuid, name: String, properties: i32 },
    SetCompression,
    LoginPluginRequest,
    LoginCookieRequest { key: String },
    // login, serverbound
    LoginStart { name: String, uuid: Uuid },
    EncryptionResponse {
        #[serde(with = "hexbytes")]
        secret: Vec<u8>,
        #[serde(with = "hexbytes")]
        token: Vec<u8>,
    },
    LoginPluginResponse,
    LoginAck,
    LoginCookieResponse {
        key: String,
        #[serde(with = "opthexbytes")]
        payload: Option<Vec<u8>>,
    },
    // configuration, clientbound
    CfgCookieRequest { key: String },
    CfgPluginMessageCb,
    CfgDisconnect { reason: Text },
    CfgFinish,
    CfgKeepAliveCb { id: u64 },
    CfgPing { id: i32 },
    CfgResetChat,
    CfgRegistryData,
    CfgRemoveResourcePack,
    CfgAddResourcePack { uuid: Uuid, url: String, hash: String, forced: bool, prompt: Option<Text> },
    CfgStoreCookie {
        key: String,
        #[serde(with = "hexbytes")]
        payload: Vec<u8>,
    },
    CfgTransfer { host: String, port: i32 },
    CfgFeatureFlags,
    CfgUpdateTags,
    CfgKnownPacksCb,
    CfgCustomReportDetails,
    CfgServerLinks,
    // configuration, serverbound
    ClientInformation {
        locale: String,
        view_distance: i8,
        chat_mode: i32,
        chat_colors: bool,
        skin_parts: u8,
        main_hand: i32,
        text_filtering: bool,
        server_listing: bool,
        particle_status: i32,
    },
    CfgCookieResponse,
    CfgPluginMessageSb,
    CfgAckFinish,
    CfgKeepAliveSb { id: u64 },
    CfgPong { id: i32 },
    CfgResourcePackResponse { uuid: Uuid, result: i32 },
    CfgKnownPacksSb,
}

fn strict_bool(r: &mut R<'_>) -> Result<bool, DecodeError> {
    match r.u8()? {
        0 => Ok(false),
        1 => Ok(true),
        o => Err(DecodeError::BadOrdinal("bool", i32::from(o))),
    }
}

impl Pkt {
    /// (phase, direction, id the protocol assigns)
    pub fn meta(&self) -> (Phase, Dir, i32) {
        use Dir::*;
        use Phase::*;
        match self {
            Pkt::Handshake { .. } => (Handshake, Sb, 0x00),
            Pkt::StatusRequest => (Status, Sb, 0x00),
            Pkt::StatusPing { .. } => (Status, Sb, 0x01),
            Pkt::StatusResponse { .. } => (Status, Cb, 0x00),
            Pkt::StatusPong { .. } => (Status, Cb, 0x01),
            Pkt::LoginDisconnect { .. } => (Login, Cb, 0x00),
            Pkt::EncryptionRequest { .. } => (Login, Cb, 0x01),
            Pkt::LoginSuccess { .. } => (Login, Cb, 0x02),
            Pkt::SetCompression => (Login, Cb, 0x03),
            Pkt::LoginPluginRequest => (Login, Cb, 0x04),
            Pkt::LoginCookieRequest { .. } => (Login, Cb, 0x05),
            Pkt::LoginStart { .. } => (Login, Sb, 0x00),
            Pkt::EncryptionResponse { .. } => (Login, Sb, 0x01),
            Pkt::LoginPluginResponse => (Login, Sb, 0x02),
            Pkt::LoginAck => (Login, Sb, 0x03),
            Pkt::LoginCookieResponse { .. } => (Login, Sb, 0x04),
            Pkt::CfgCookieRequest { .. } => (Config, Cb, 0x00),
            Pkt::CfgPluginMessageCb => (Config, Cb, 0x01),
            Pkt::CfgDisconnect { .. } => (Config, Cb, 0x02),
            Pkt::CfgFinish => (Config, Cb, 0x03),
            Pkt::CfgKeepAliveCb { .. } => (Config, Cb, 0x04),
            Pkt::CfgPing { .. } => (Config, Cb, 0x05),
            Pkt::CfgResetChat => (Config, Cb, 0x06),
            Pkt::CfgRegistryData => (Config, Cb, 0x07),
            Pkt::CfgRemoveResourcePack => (Config, Cb, 0x08),
            Pkt::CfgAddResourcePack { .. } => (Config, Cb, 0x09),
            Pkt::CfgStoreCookie { .. } => (Config, Cb, 0x0A),
            Pkt::CfgTransfer { .. } => (Config, Cb, 0x0B),
            Pkt::CfgFeatureFlags => (Config, Cb, 0x0C),
            Pkt::CfgUpdateTags => (Config, Cb, 0x0D),
            Pkt::CfgKnownPacksCb => (Config, Cb, 0x0E),
            Pkt::CfgCustomReportDetails => (Config, Cb, 0x0F),
            Pkt::CfgServerLinks => (Config, Cb, 0x10),
            Pkt::ClientInformation { .. } => (Config, Sb, 0x00),
            Pkt::CfgCookieResponse => (Config, Sb, 0x01),
            Pkt::CfgPluginMessageSb => (Config, Sb, 0x02),
            Pkt::CfgAckFinish => (Config, Sb, 0x03),
            Pkt::CfgKeepAliveSb { .. } => (Config, Sb, 0x04),
            Pkt::CfgPong { .. } => (Config, Sb, 0x05),
            Pkt::CfgResourcePackResponse { .. } => (Config, Sb, 0x06),
            Pkt::CfgKnownPacksSb => (Config, Sb, 0x07),
        }
    }

    pub fn id(&self) -> i32 {
        self.meta().2
    }

    pub fn kind(&self) -> &'static str {
        match self {
            Pkt::Handshake { .. } => "Handshake",
            Pkt::StatusRequest => "StatusRequest",
            Pkt::StatusPing { .. } => "StatusPing",
            Pkt::StatusResponse { .. } => "StatusResponse",
            Pkt::StatusPong { .. } => "StatusPong",
            Pkt::LoginDisconnect { .. } => "LoginDisconnect",
            Pkt::EncryptionRequest { .. } => "EncryptionRequest",
            Pkt::LoginSuccess { .. } => "LoginSuccess",
            Pkt::SetCompression => "SetCompression",
            Pkt::LoginPluginRequest => "LoginPluginRequest",
            Pkt::LoginCookieRequest { .. } => "LoginCookieRequest",
            Pkt::LoginStart { .. } => "LoginStart",
            Pkt::EncryptionResponse { .. } => "EncryptionResponse",
            Pkt::LoginPluginResponse => "LoginPluginResponse",
            Pkt::LoginAck => "LoginAck",
            Pkt::LoginCookieResponse { .. } => "LoginCookieResponse",
            Pkt::CfgCookieRequest { .. } => "CfgCookieRequest",
            Pkt::CfgPluginMessageCb => "CfgPluginMessageCb",
            Pkt::CfgDisconnect { .. } => "CfgDisconnect",
            Pkt::CfgFinish => "CfgFinish",
            Pkt::CfgKeepAliveCb { .. } => "CfgKeepAlive",
            Pkt::CfgPing { .. } => "CfgPing",
            Pkt::CfgResetChat => "CfgResetChat",
            Pkt::CfgRegistryData => "CfgRegistryData",
            Pkt::CfgRemoveResourcePack => "CfgRemoveResourcePack",
            Pkt::CfgAddResourcePack { .. } => "CfgAddResourcePack",
            Pkt::CfgStoreCookie { .. } => "CfgStoreCookie",
            Pkt::CfgTransfer { .. } => "CfgTransfer",
            Pkt::CfgFeatureFlags => "CfgFeatureFlags",
            Pkt::CfgUpdateTags => "CfgUpdateTags",
            Pkt::CfgKnownPacksCb => "CfgKnownPacksCb",
            Pkt::CfgCustomReportDetails => "CfgCustomReportDetails",
            Pkt::CfgServerLinks => "CfgServerLinks",
            Pkt::ClientInformation { .. } => "ClientInformation",
            Pkt::CfgCookieResponse => "CfgCookieResponse",
            Pkt::CfgPluginMessageSb => "CfgPluginMessageSb",
            Pkt::CfgAckFinish => "CfgAckFinish",
            Pkt::CfgKeepAliveSb { .. } => "CfgKeepAliveSb",
            Pkt::CfgPong { .. } => "CfgPong",
            Pkt::CfgResourcePackResponse { .. } => "CfgResourcePackResponse",
            Pkt::CfgKnownPacksSb => "CfgKnownPacksSb",
        }
    }

    /// the packet body (without id), fields in protocol order
    pub fn body(&self) -> Vec<u8> {
        let mut w = W::new();
        match self {
            Pkt::Handshake { protocol, host, port, next } => {
                w.varint(*protocol).string(host).u16(*port).varint(*next);
            }
            Pkt::StatusRequest => {}
            Pkt::StatusPing { payload } | Pkt::StatusPong { payload } => {
                w.u64(*payload);
            }
            Pkt::StatusResponse { body } => {
                w.string(body);
            }
            Pkt::LoginDisconnect { reason } => {
                w.string(reason);
            }
            Pkt::EncryptionRequest { server_id, public_key, verify_token, should_authenticate } => {
                w.string(server_id).bytes(public_key).bytes(verify_token).bool(*should_authenticate);
            }
            Pkt::LoginSuccess { uuid, name, properties } => {
                w.uuid(uuid).string(name).varint(*properties);
            }
            Pkt::SetCompression | Pkt::LoginPluginRequest | Pkt::LoginPluginResponse | Pkt::LoginAck => {}
            Pkt::LoginCookieRequest { key } | Pkt::CfgCookieRequest { key } => {
                w.string(key);
            }
            Pkt::LoginStart { name, uuid } => {
                w.string(name).uuid(uuid);
            }
            Pkt::EncryptionResponse { secret, token } => {
                w.bytes(secret).bytes(token);
            }
            Pkt::LoginCookieResponse { key, payload } => {
                w.string(key).bool(payload.is_some());
                if let Some(p) = payload {
                    w.bytes(p);
                }
            }
            Pkt::CfgDisconnect { reason } => {
                w.text(reason);
            }
            Pkt::CfgKeepAliveCb { id } | Pkt::CfgKeepAliveSb { id } => {
                w.u64(*id);
            }
            Pkt::CfgPing { id } | Pkt::CfgPong { id } => {
                w.i32(*id);
            }
            Pkt::CfgAddResourcePack { uuid, url, hash, forced, prompt } => {
                w.uuid(uuid).string(url).string(hash).bool(*forced).bool(prompt.is_some());
                if let Some(p) = prompt {
                    w.text(p);
                }
            }
            Pkt::CfgStoreCookie { key, payload } => {
                w.string(key).bytes(payload);
            }
            Pkt::CfgTransfer { host, port } => {
                w.string(host).varint(*port);
            }
            Pkt::ClientInformation {
                locale,
                view_distance,
                chat_mode,
                chat_colors,
                skin_parts,
                main_hand,
                text_filtering,
                server_listing,
                particle_status,
            } => {
                w.string(locale)
                    .i8(*view_distance)
                    .varint(*chat_mode)
                    .bool(*chat_colors)
                    .u8(*skin_parts)
                    .varint(*main_hand)
                    .bool(*text_filtering)
                    .bool(*server_listing)
                    .varint(*particle_status);
            }
            Pkt::CfgResourcePackResponse { uuid, result } => {
                w.uuid(uuid).varint(*result);
            }
            Pkt::CfgPluginMessageCb
            | Pkt::CfgFinish
            | Pkt::CfgResetChat
            | Pkt::CfgRegistryData
            | Pkt::CfgRemoveResourcePack
            | Pkt::CfgFeatureFlags
            | Pkt::CfgUpdateTags
            | Pkt::CfgKnownPacksCb
            | Pkt::CfgCustomReportDetails
            | Pkt::CfgServerLinks
            | Pkt::CfgCookieResponse
            | Pkt::CfgPluginMessageSb
            | Pkt::CfgAckFinish
            | Pkt::CfgKnownPacksSb => {}
        }
        w.0
    }

    /// a full frame: VarInt(length of id+body) id body
    pub fn frame(&self) -> Vec<u8> {
        frame(self.id(), &self.body())
    }

    /// decodes a body for the given (phase, direction, id); tolerates no trailing bytes (strict) —
    /// callers that want to tolerate them use `decode_prefix`.
    pub fn decode(phase: Phase, dir: Dir, id: i32, body: &[u8]) -> Result<Pkt, DecodeError> {
        let mut r = R::new(body);
        let p = Self::decode_prefix(phase, dir, id, &mut r)?;
        if r.remaining() != 0 {
            return Err(DecodeError::Trailing(r.remaining()));
        }
        Ok(p)
    }

    pub fn decode_prefix(phase: Phase, dir: Dir, id: i32, r: &mut R<'_>) -> Result<Pkt, DecodeError> {
        use Dir::*;
        use Phase::*;
        Ok(match (phase, dir, id) {
            (Handshake, Sb, 0x00) => Pkt::Handshake {
                protocol: r.varint()?,
                host: r.string()?,
                port: r.u16()?,
                next: r.varint()?,
            },
            (Status, Sb, 0x00) => Pkt::StatusRequest,
            (Status, Sb, 0x01) => Pkt::StatusPing { payload: r.u64()? },
            (Status, Cb, 0x00) => Pkt::StatusResponse { body: r.string()? },
            (Status, Cb, 0x01) => Pkt::StatusPong { payload: r.u64()? },
            (Login, Cb, 0x00) => Pkt::LoginDisconnect { reason: r.string()? },
            (Login, Cb, 0x01) => Pkt::EncryptionRequest {
                server_id: r.string()?,
                public_key: r.bytes()?,
                verify_token: r.bytes()?,
                should_authenticate: strict_bool(r)?,
            },
            (Login, Cb, 0x02) => Pkt::LoginSuccess { uuid: r.uuid()?, name: r.string()?, properties: r.varint()? },
            (Login, Cb, 0x03) => Pkt::SetCompression,
            (Login, Cb, 0x04) => Pkt::LoginPluginRequest,
            (Login, Cb, 0x05) => Pkt::LoginCookieRequest { key: r.string()? },
            (Login, Sb, 0x00) => Pkt::LoginStart { name: r.string()?, uuid: r.uuid()? },
            (Login, Sb, 0x01) => Pkt::EncryptionResponse { secret: r.bytes()?, token: r.bytes()? },
            (Login, Sb, 0x02) => Pkt::LoginPluginResponse,
            (Login, Sb, 0x03) => Pkt::LoginAck,
            (Login, Sb, 0x04) => {
                let key = r.string()?;
                let has = strict_bool(r)?;
                let payload = if has { Some(r.bytes()?) } else { None };
                Pkt::LoginCookieResponse { key, payload }
            }
            (Config, Cb, 0x00) => Pkt::CfgCookieRequest { key: r.string()? },
            (Config, Cb, 0x01) => Pkt::CfgPluginMessageCb,
            (Config, Cb, 0x02) => Pkt::CfgDisconnect { reason: r.text()? },
            (Config, Cb, 0x03) => Pkt::CfgFinish,
            (Config, Cb, 0x04) => Pkt::CfgKeepAliveCb { id: r.u64()? },
            (Config, Cb, 0x05) => Pkt::CfgPing { id: r.i32()? },
            (Config, Cb, 0x06) => Pkt::CfgResetChat,
            (Config, Cb, 0x07) => Pkt::CfgRegistryData,
            (Config, Cb, 0x08) => Pkt::CfgRemoveResourcePack,
            (Config, Cb, 0x09) => {
                let uuid = r.uuid()?;
                let url = r.string()?;
                let hash = r.string()?;
                let forced = strict_bool(r)?;
                let has = strict_bool(r)?;
                let prompt = if has { Some(r.text()?) } else { None };
                Pkt::CfgAddResourcePack { uuid, url, hash, forced, prompt }
            }
            (Config, Cb, 0x0A) => Pkt::CfgStoreCookie { key: r.string()?, payload: r.bytes()? },
            (Config, Cb, 0x0B) => Pkt::CfgTransfer { host: r.string()?, port: r.varint()? },
            (Config, Cb, 0x0C) => Pkt::CfgFeatureFlags,
            (Config, Cb, 0x0D) => Pkt::CfgUpdateTags,
            (Config, Cb, 0x0E) => Pkt::CfgKnownPacksCb,
            (Config, Cb, 0x0F) => Pkt::CfgCustomReportDetails,
            (Config, Cb, 0x10) => Pkt::CfgServerLinks,
            (Config, Sb, 0x00) => Pkt::ClientInformation {
                locale: r.string()?,
                view_distance: r.i8()?,
                chat_mode: r.varint()?,
                chat_colors: strict_bool(r)?,
                skin_parts: r.u8()?,
                main_hand: r.varint()?,
                text_filtering: strict_bool(r)?,
                server_listing: strict_bool(r)?,
                particle_status: r.varint()?,
            },
            (Config, Sb, 0x01) => Pkt::CfgCookieResponse,
            (Config, Sb, 0x02) => Pkt::CfgPluginMessageSb,
            (Config, Sb, 0x03) => Pkt::CfgAckFinish,
            (Config, Sb, 0x04) => Pkt::CfgKeepAliveSb { id: r.u64()? },
            (Config, Sb, 0x05) => Pkt::CfgPong { id: r.i32()? },
            (Config, Sb, 0x06) => Pkt::CfgResourcePackResponse { uuid: r.uuid()?, result: r.varint()? },
            (Config, Sb, 0x07) => Pkt::CfgKnownPacksSb,
            (_, _, id) => return Err(DecodeError::UnknownId(id)),
        })
    }
}

/// VarInt(len(id)+len(body)) id body
pub fn frame(id: i32, body: &[u8]) -> Vec<u8> {
    let mut inner = W::new();
    inner.varint(id).raw(body);
    let mut w = W::new();
    w.varint(inner.0.len() as i32).raw(&inner.0);
    w.0
}

/// A raw frame split off a byte stream
#[derive(Clone, Debug, PartialEq, Eq)]
pub struct RawFrame {
    pub id: i32,
    pub body: Vec<u8>,
    /// total bytes on the wire (length prefix included)
    pub wire_len: usize,
}

/// Splits the next complete frame off `buf`. `Ok(None)` = incomplete.
pub fn split_frame(buf: &[u8]) -> Result<Option<RawFrame>, DecodeError> {
    let mut r = R::new(buf);
    let len = match r.varint() {
        Ok(l) => l,
        Err(DecodeError::Eof) => return Ok(None),
        Err(e) => return Err(e),
    };
    if len <= 0 {
        return Err(DecodeError::NegativeLength);
    }
    let hdr = r.p;
    if r.remaining() < len as usize {
        return Ok(None);
    }
    let inner = r.take(len as usize)?;
    let mut ir = R::new(inner);
    let id = ir.varint()?;
    Ok(Some(RawFrame { id, body: inner[ir.p..].to_vec(), wire_len: hdr + len as usize }))
}

pub fn varint_bytes(v: i32) -> Vec<u8> {
    let mut w = W::new();
    w.varint(v);
    w.0
}

pub fn varlong_bytes(v: i64) -> Vec<u8> {
    let mut w = W::new();
    w.varlong(v);
    w.0
}
