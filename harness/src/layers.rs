//! The operator's configuration as it really reaches passage: `Config::read()` in a child process
//! (`verif SERVE`), fed from a configuration file, the auth secret file and environment variables.
//!
//! The documented layering (src/config.rs): environment variables > auth secret file > configuration
//! file > defaults. A `LayerPlan` says through which layer each knob travels and which lower layers
//! carry a *different* (decoy) value; the effective configuration is by construction the one the caller
//! asked for, so every oracle that holds for a directly built `Config` must hold for the child too.

use serde::{Deserialize, Serialize};
use serde_json::{Value, json};
use std::path::PathBuf;
use std::process::{Child, Command, Stdio};
use std::sync::atomic::{AtomicU64, Ordering};
use std::time::{Duration, Instant};

/// how a knob that the environment can express reaches the child
#[derive(Clone, Debug, Serialize, Deserialize, PartialEq)]
pub enum Place {
    File,
    Env,
    /// the file carries a different value, the environment the real one
    FileDecoyEnv,
}

#[derive(Clone, Debug, Serialize, Deserialize, PartialEq)]
pub enum SecretPlace {
    File,
    SecretFile,
    Env,
    FileDecoySecretFile,
    /// the file carries a decoy under the key the environment layer produces (`authsecret`), the environment the
    /// real one. (A key spelled `auth_secret` in a lower layer *and* `authsecret` from the environment makes
    /// `Config::read` fail with "duplicate field": such an instance never starts, which is outside these properties.
    /// The secret file always produces `auth_secret`, so it is never combined with the environment.)
    FileDecoyEnv,
}

#[derive(Clone, Debug, Serialize, Deserialize, PartialEq)]
pub struct LayerPlan {
    /// 0 = .json, 1 = .yaml, 2 = .yml (JSON text is YAML), 3 = .toml
    pub fmt: u8,
    pub timeout: Place,
    pub secret: SecretPlace,
    pub proxy: Place,
    pub limiter: Place,
    /// ENV_PREFIX (None = the default `PASSAGE`)
    pub env_prefix: Option<String>,
    /// files at their default locations (config/config.<ext>, config/auth_secret below the working directory)
    /// instead of CONFIG_FILE / AUTH_SECRET_FILE
    pub default_paths: bool,
}

impl LayerPlan {
    /// a plan derived from the bits of `x` (for loops that do not go through proptest)
    pub fn from_bits(x: u64) -> LayerPlan {
        let place = |v: u64| match v % 3 {
            0 => Place::File,
            1 => Place::Env,
            _ => Place::FileDecoyEnv,
        };
        LayerPlan {
            fmt: (x % 4) as u8,
            timeout: place(x >> 2),
            secret: [SecretPlace::File, SecretPlace::SecretFile, SecretPlace::Env, SecretPlace::FileDecoySecretFile, SecretPlace::FileDecoyEnv][((x >> 5) % 5) as usize].clone(),
            proxy: place(x >> 9),
            limiter: place(x >> 12),
            env_prefix: [None, Some("ROUTER".to_string()), Some("mc".to_string())][((x >> 15) % 3) as usize].clone(),
            default_paths: (x >> 18) & 1 == 1,
        }
    }

    pub fn label(&self) -> String {
        format!("timeout:{:?} secret:{:?} proxy:{:?} limiter:{:?} prefix:{} paths:{}", self.timeout, self.secret, self.proxy, self.limiter, self.env_prefix.as_deref().unwrap_or("default"), if self.default_paths { "default" } else { "env" })
    }
}

pub fn plan_strategy() -> proptest::strategy::BoxedStrategy<LayerPlan> {
    use proptest::prelude::*;
    let place = || prop_oneof![Just(Place::File), Just(Place::Env), Just(Place::FileDecoyEnv)];
    let secret = prop_oneof![Just(SecretPlace::File), Just(SecretPlace::SecretFile), Just(SecretPlace::Env), Just(SecretPlace::FileDecoySecretFile), Just(SecretPlace::FileDecoyEnv)];
    (0u8..4, place(), secret, place(), place(), prop_oneof![2 => Just(None), 1 => Just(Some("ROUTER".to_string())), 1 => Just(Some("mc".to_string()))], any::<bool>())
        .prop_map(|(fmt, timeout, secret, proxy, limiter, env_prefix, default_paths)| LayerPlan { fmt, timeout, secret, proxy, limiter, env_prefix, default_paths })
        .boxed()
}

pub struct Layered {
    pub port: u16,
    child: Child,
    dir: PathBuf,
    /// what was written where (for failure messages)
    pub description: String,
}

impl Layered {
    /// what an operator does to stop the instance (ctrl-c / SIGINT)
    pub fn interrupt(&self) {
        unsafe {
            libc::kill(self.child.id() as i32, libc::SIGINT);
        }
    }
    /// waits for the process to end by itself; None = still running after `timeout`
    pub fn wait_exit(&mut self, timeout: Duration) -> Option<std::process::ExitStatus> {
        let t0 = Instant::now();
        loop {
            if let Ok(Some(st)) = self.child.try_wait() {
                return Some(st);
            }
            if t0.elapsed() > timeout {
                return None;
            }
            std::thread::sleep(Duration::from_millis(5));
        }
    }
}

impl Drop for Layered {
    fn drop(&mut self) {
        // the way an operator stops it
        unsafe {
            libc::kill(self.child.id() as i32, libc::SIGINT);
        }
        let t0 = Instant::now();
        loop {
            match self.child.try_wait() {
                Ok(Some(_)) => break,
                _ if t0.elapsed() > Duration::from_millis(1500) => {
                    let _ = self.child.kill();
                    let _ = self.child.wait();
                    break;
                }
                _ => std::thread::sleep(Duration::from_millis(10)),
            }
        }
        let _ = std::fs::remove_dir_all(&self.dir);
    }
}

static SEQ: AtomicU64 = AtomicU64::new(0);

fn toml_value(v: &Value, out: &mut String, path: &str) {
    // tables last, scalars first (TOML requires it); arrays of tables are written inline
    let Some(map) = v.as_object() else { return };
    for (k, val) in map {
        if !val.is_object() && !val.is_null() {
            out.push_str(&format!("{k} = {}\n", toml_inline(val)));
        }
    }
    for (k, val) in map {
        if val.is_object() {
            let p = if path.is_empty() { k.clone() } else { format!("{path}.{k}") };
            out.push_str(&format!("\n[{p}]\n"));
            toml_value(val, out, &p);
        }
    }
}

fn toml_inline(v: &Value) -> String {
    match v {
        Value::String(s) => serde_json::to_string(s).unwrap(),
        Value::Array(a) => format!("[{}]", a.iter().map(toml_inline).collect::<Vec<_>>().join(", ")),
        Value::Object(m) => format!("{{ {} }}", m.iter().filter(|(_, v)| !v.is_null()).map(|(k, v)| format!("{k} = {}", toml_inline(v))).collect::<Vec<_>>().join(", ")),
        other => other.to_string(),
    }
}

/// Starts `verif SERVE` with the effective configuration `eff` (a JSON object in the shape of
/// passage::config::Config, `address` included) spread over the layers as the plan says.
pub fn start(eff: &Value, plan: &LayerPlan) -> Result<Layered, String> {
    start_with(eff, plan, &[], &[])
}

/// `env_only`: (path into the configuration, environment key without prefix, value): the value is removed from
/// the file and travels through the environment layer. `passthrough`: further variables of the child as they are.
pub fn start_with(eff: &Value, plan: &LayerPlan, env_only: &[(Vec<&str>, &str, String)], passthrough: &[(String, String)]) -> Result<Layered, String> {
    let n = SEQ.fetch_add(1, Ordering::Relaxed);
    let base = std::env::current_exe().map_err(|e| e.to_string())?.parent().map(|p| p.to_path_buf()).unwrap_or_default();
    let dir = base.join("verif-layers").join(format!("{}-{n}", std::process::id()));
    std::fs::create_dir_all(dir.join("config")).map_err(|e| e.to_string())?;
    let port = eff["address"].as_str().and_then(|a| a.rsplit(':').next()).and_then(|p| p.parse::<u16>().ok()).ok_or("address without port")?;

    let mut file = eff.clone();
    let mut env: Vec<(String, String)> = Vec::new();
    let mut notes: Vec<String> = Vec::new();
    let prefix = plan.env_prefix.clone().unwrap_or_else(|| "PASSAGE".to_string());
    let key = |k: &str| format!("{}_{k}", prefix.to_uppercase());

    // timeout
    if let Some(t) = eff.get("timeout").and_then(Value::as_u64) {
        match plan.timeout {
            Place::File => {}
            Place::Env => {
                file.as_object_mut().unwrap().remove("timeout");
                env.push((key("TIMEOUT"), t.to_string()));
            }
            Place::FileDecoyEnv => {
                file["timeout"] = json!(t + 7);
                env.push((key("TIMEOUT"), t.to_string()));
            }
        }
        notes.push(format!("timeout {t} via {:?}", plan.timeout));
    }
    // secret
    let mut secret_file: Option<String> = None;
    if let Some(s) = eff.get("auth_secret").and_then(Value::as_str).map(str::to_string) {
        let obj = file.as_object_mut().unwrap();
        match plan.secret {
            SecretPlace::File => {}
            SecretPlace::SecretFile => {
                obj.remove("auth_secret");
                secret_file = Some(s.clone());
            }
            SecretPlace::Env => {
                obj.remove("auth_secret");
                env.push((key("AUTHSECRET"), s.clone()));
            }
            SecretPlace::FileDecoySecretFile => {
                obj.insert("auth_secret".into(), json!("decoy-from-the-config-file"));
                secret_file = Some(s.clone());
            }
            SecretPlace::FileDecoyEnv => {
                obj.remove("auth_secret");
                obj.insert("authsecret".into(), json!("decoy-from-the-config-file"));
                env.push((key("AUTHSECRET"), s.clone()));
            }
        }
        notes.push(format!("secret via {:?}", plan.secret));
    }
    // proxy protocol
    if let Some(p) = eff.get("proxy_protocol").filter(|p| p.is_object()).cloned() {
        let (v1, v2) = (p["allow_v1"].as_bool().unwrap_or(true), p["allow_v2"].as_bool().unwrap_or(true));
        match plan.proxy {
            Place::File => {}
            Place::Env => {
                file.as_object_mut().unwrap().remove("proxy_protocol");
                env.push((key("PROXYPROTOCOL_ALLOWV1"), v1.to_string()));
                env.push((key("PROXYPROTOCOL_ALLOWV2"), v2.to_string()));
            }
            Place::FileDecoyEnv => {
                // spelled the way the environment layer spells it (see SecretPlace::FileDecoyEnv)
                file.as_object_mut().unwrap().remove("proxy_protocol");
                file["proxyprotocol"] = json!({"allowv1": !v1, "allowv2": !v2});
                env.push((key("PROXYPROTOCOL_ALLOWV1"), v1.to_string()));
                env.push((key("PROXYPROTOCOL_ALLOWV2"), v2.to_string()));
            }
        }
        notes.push(format!("proxy_protocol v1={v1} v2={v2} via {:?}", plan.proxy));
    }
    // rate limiter
    if let Some(r) = eff.get("rate_limiter").filter(|p| p.is_object()).cloned() {
        let (d, l) = (r["duration"].as_u64().unwrap_or(60), r["limit"].as_u64().unwrap_or(60));
        match plan.limiter {
            Place::File => {}
            Place::Env => {
                file.as_object_mut().unwrap().remove("rate_limiter");
                env.push((key("RATELIMITER_DURATION"), d.to_string()));
                env.push((key("RATELIMITER_LIMIT"), l.to_string()));
            }
            Place::FileDecoyEnv => {
                file.as_object_mut().unwrap().remove("rate_limiter");
                file["ratelimiter"] = json!({"duration": d + 1, "limit": l + 5});
                env.push((key("RATELIMITER_DURATION"), d.to_string()));
                env.push((key("RATELIMITER_LIMIT"), l.to_string()));
            }
        }
        notes.push(format!("rate_limiter {l}/{d}s via {:?}", plan.limiter));
    }

    for (path, suffix, value) in env_only {
        let mut cur = &mut file;
        for seg in &path[..path.len() - 1] {
            cur = &mut cur[*seg];
        }
        if let Some(o) = cur.as_object_mut() {
            o.remove(*path.last().unwrap());
        }
        env.push((key(suffix), value.clone()));
        notes.push(format!("{} via Env", path.join(".")));
    }
    let (ext, text) = match plan.fmt % 4 {
        0 => ("json", serde_json::to_string_pretty(&file).unwrap()),
        1 => ("yaml", serde_json::to_string_pretty(&file).unwrap()),
        2 => ("yml", serde_json::to_string_pretty(&file).unwrap()),
        _ => {
            let mut s = String::new();
            toml_value(&file, &mut s, "");
            ("toml", s)
        }
    };
    let mut cmd = Command::new(std::env::current_exe().map_err(|e| e.to_string())?);
    cmd.arg("SERVE").env_clear().current_dir(&dir).stdin(Stdio::null()).stdout(Stdio::null()).stderr(Stdio::piped());
    if plan.default_paths {
        std::fs::write(dir.join("config").join(format!("config.{ext}")), &text).map_err(|e| e.to_string())?;
        if let Some(s) = &secret_file {
            std::fs::write(dir.join("config").join("auth_secret"), s).map_err(|e| e.to_string())?;
        }
    } else {
        let cf = dir.join(format!("operator.{ext}"));
        std::fs::write(&cf, &text).map_err(|e| e.to_string())?;
        cmd.env("CONFIG_FILE", &cf);
        let sf = dir.join("mounted-secret");
        if let Some(s) = &secret_file {
            std::fs::write(&sf, s).map_err(|e| e.to_string())?;
        }
        // when no secret file is planned the variable names a path that does not exist
        cmd.env("AUTH_SECRET_FILE", &sf);
    }
    if let Some(p) = &plan.env_prefix {
        cmd.env("ENV_PREFIX", p);
    }
    for (k, v) in env.iter().chain(passthrough.iter()) {
        cmd.env(k, v);
    }
    let description = format!("{} file ({}); secret file: {}; environment: {:?}; {}", ext, if plan.default_paths { "default path" } else { "CONFIG_FILE" }, if secret_file.is_some() { "yes" } else { "no" }, env.iter().map(|(k, _)| k.as_str()).collect::<Vec<_>>(), notes.join(", "));
    let mut child = cmd.spawn().map_err(|e| format!("spawn: {e}"))?;
    // wait until it listens (or died)
    let t0 = Instant::now();
    loop {
        if crate::net::is_listening(port) {
            break;
        }
        if let Ok(Some(status)) = child.try_wait() {
            let mut err = String::new();
            if let Some(mut e) = child.stderr.take() {
                use std::io::Read;
                let _ = e.read_to_string(&mut err);
            }
            let _ = std::fs::remove_dir_all(&dir);
            return Err(format!("the instance exited with {status} before listening: {} [{description}]", err.trim()));
        }
        if t0.elapsed() > Duration::from_secs(10) {
            let _ = child.kill();
            let _ = child.wait();
            let _ = std::fs::remove_dir_all(&dir);
            return Err(format!("the instance did not listen on port {port} within 10 s [{description}]"));
        }
        std::thread::sleep(Duration::from_millis(3));
    }
    Ok(Layered { port, child, dir, description })
}

/// the child: what src/main.rs does, without the telemetry
pub fn serve() -> i32 {
    let config = match passage::config::Config::read() {
        Ok(c) => c,
        Err(e) => {
            eprintln!("configuration: {e}");
            return 3;
        }
    };
    let rt = tokio::runtime::Builder::new_multi_thread().worker_threads(2).enable_all().build().expect("rt");
    match rt.block_on(passage::start(config)) {
        Ok(()) => 0,
        Err(e) => {
            eprintln!("passage::start: {e}");
            4
        }
    }
}
