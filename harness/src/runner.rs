//! Generic property runner: sharded proptest search with fixed seeds, shrinking, replay files,
//! known-finding handling, statistics and the evidence writer.
//!
//! Every property is a `Check`: a serialisable `Case`, a proptest strategy producing cases, and an
//! interpreter `run` that executes the *real* code on the case and decides it with an explicit oracle.

use proptest::strategy::{BoxedStrategy, Strategy};
use proptest::test_runner::{Config, RngSeed, TestCaseError, TestError, TestRunner};
use serde::{Serialize, de::DeserializeOwned};
use serde_json::{Value, json};
use std::collections::{BTreeMap, HashSet};
use std::fmt::Debug;
use std::hash::{Hash, Hasher};
use std::path::{Path, PathBuf};
use std::sync::atomic::{AtomicBool, AtomicU64, Ordering};
use std::sync::{Arc, Mutex};
use std::time::Instant;

#[derive(Clone, Copy, Debug, PartialEq, Eq)]
pub enum Tier {
    Quick,
    Thorough,
}

impl Tier {
    pub fn name(self) -> &'static str {
        match self {
            Tier::Quick => "quick",
            Tier::Thorough => "thorough",
        }
    }
    /// picks the quick or thorough value
    pub fn pick<T>(self, quick: T, thorough: T) -> T {
        match self {
            Tier::Quick => quick,
            Tier::Thorough => thorough,
        }
    }
}

/// Outcome of one executed case.
#[derive(Clone, Debug)]
pub enum Verdict {
    Pass,
    /// The oracle rejected the observed behaviour. `sig` names the failing call site / history class
    /// (matched against KNOWN_FINDINGS.json), `msg` is the human-readable explanation.
    Fail { sig: String, msg: String },
    /// The case could not be decided (e.g. wall-clock second changed under a boundary case).
    Inconclusive(String),
}

#[derive(Clone, Debug, Default)]
pub struct CaseInfo {
    /// non-trivial by the property's stated rule
    pub nontrivial: bool,
    /// classes for the histogram in the evidence file
    pub classes: Vec<String>,
}

impl CaseInfo {
    pub fn new(nontrivial: bool, classes: Vec<String>) -> Self {
        Self { nontrivial, classes }
    }
    pub fn class(&mut self, c: impl Into<String>) {
        self.classes.push(c.into());
    }
}

pub trait Check: Sync {
    type Case: Clone + Debug + Serialize + DeserializeOwned + Send + 'static;

    fn id(&self) -> &'static str;
    /// generator; built once per shard thread
    fn strategy(&self, tier: Tier) -> BoxedStrategy<Self::Case>;
    /// total number of generated cases for the tier (split over the shards)
    fn cases(&self, tier: Tier) -> u64;
    /// run the real code on one case and decide it
    fn run(&self, case: &Self::Case) -> (Verdict, CaseInfo);
    /// how cases are generated and what makes one non-trivial
    fn rule(&self) -> String;
    fn assumptions(&self) -> Vec<String>;
    /// number of shards (threads); real-socket engines use fewer
    fn shards(&self, _tier: Tier) -> usize {
        16
    }
    /// deterministic extra work before the random search (exhaustive sweeps, enumerations). Returns
    /// violations as (sig,msg,replay-json) and extra coverage keys merged into the evidence.
    fn extra(&self, _tier: Tier, _seed: u64, _stats: &Stats) -> Vec<(String, String, Value)> {
        Vec::new()
    }
    /// shrinking budget (checks whose failing cases cost seconds of real time use a small one)
    fn max_shrink_iters(&self) -> u32 {
        4096
    }
    /// called once after the search, before the evidence is written (extra coverage keys)
    fn finish(&self, _stats: &Stats) {}
    /// what is kept in the `samples` list for one case (default: the case itself)
    fn sample(&self, case: &Self::Case) -> Value {
        serde_json::to_value(case).unwrap_or(Value::Null)
    }
}

/// Shared statistics of one run.
#[derive(Default)]
pub struct Stats {
    pub evaluations: AtomicU64,
    pub inconclusive: AtomicU64,
    pub known_hits: AtomicU64,
    pub nontrivial_hashes: Mutex<HashSet<u64>>,
    pub classes: Mutex<BTreeMap<String, u64>>,
    pub samples: Mutex<Vec<Value>>,
    pub extra: Mutex<BTreeMap<String, Value>>,
    pub known_hit_sigs: Mutex<BTreeMap<String, u64>>,
}

/// at most this many distinct non-trivial case hashes are remembered
pub const DISTINCT_CAP: usize = 6_000_000;

impl Stats {
    pub fn record(&self, hash: u64, info: &CaseInfo, sample: impl FnOnce() -> Value) {
        self.evaluations.fetch_add(1, Ordering::Relaxed);
        {
            let mut classes = self.classes.lock().unwrap();
            for c in &info.classes {
                *classes.entry(c.clone()).or_insert(0) += 1;
            }
        }
        if info.nontrivial {
            // the set of distinct hashes is capped (memory): beyond the cap the count is a lower bound
            let fresh = {
                let mut set = self.nontrivial_hashes.lock().unwrap();
                if set.len() >= DISTINCT_CAP { false } else { set.insert(hash) }
            };
            if fresh {
                let mut samples = self.samples.lock().unwrap();
                if samples.len() < 5 {
                    samples.push(sample());
                }
            }
        }
    }
    pub fn set_extra(&self, key: &str, v: Value) {
        self.extra.lock().unwrap().insert(key.to_string(), v);
    }
    pub fn add_extra_count(&self, key: &str, n: u64) {
        let mut e = self.extra.lock().unwrap();
        let cur = e.get(key).and_then(|v| v.as_u64()).unwrap_or(0);
        e.insert(key.to_string(), json!(cur + n));
    }
}

pub fn hash_json<T: Serialize>(v: &T) -> u64 {
    let s = serde_json::to_string(v).unwrap_or_default();
    let mut h = std::collections::hash_map::DefaultHasher::new();
    s.hash(&mut h);
    h.finish()
}

pub fn mix(seed: u64, id: &str, shard: u64) -> u64 {
    // splitmix-style mixing; pure function of (seed, id, shard)
    let mut h: u64 = seed ^ 0x9E37_79B9_7F4A_7C15;
    for b in id.bytes() {
        h = (h ^ u64::from(b)).wrapping_mul(0x0100_0000_01B3);
    }
    h ^= shard.wrapping_mul(0xBF58_476D_1CE4_E5B9);
    h ^= h >> 30;
    h = h.wrapping_mul(0xBF58_476D_1CE4_E5B9);
    h ^= h >> 27;
    h = h.wrapping_mul(0x94D0_49BB_1331_11EB);
    h ^= h >> 31;
    h
}

pub fn verif_dir() -> PathBuf {
    std::env::var("VERIF_DIR")
        .map(PathBuf::from)
        .unwrap_or_else(|_| PathBuf::from("/verif"))
}

/// One entry of KNOWN_FINDINGS.json
#[derive(Clone, Debug, serde::Deserialize)]
pub struct Finding {
    pub status: String,
    pub property: String,
    #[serde(default)]
    pub signature: String,
    #[serde(default)]
    pub what: String,
    #[serde(default)]
    pub repro: Option<String>,
    #[serde(default)]
    pub commit: Option<String>,
}

pub fn load_findings() -> Vec<Finding> {
    let p = verif_dir().join("KNOWN_FINDINGS.json");
    let Ok(txt) = std::fs::read_to_string(&p) else {
        return Vec::new();
    };
    let v: Value = serde_json::from_str(&txt).expect("KNOWN_FINDINGS.json must be valid JSON");
    let arr = v.get("findings").cloned().unwrap_or(Value::Array(vec![]));
    serde_json::from_value(arr).expect("KNOWN_FINDINGS.json: bad entry")
}

/// signatures that are listed as `known` for this property
pub fn known_sigs(id: &str) -> Vec<Finding> {
    load_findings()
        .into_iter()
        .filter(|f| f.property == id && f.status == "known")
        .collect()
}

thread_local! {
    pub static LAST_PANIC: std::cell::RefCell<Option<String>> = const { std::cell::RefCell::new(None) };
}

pub fn install_quiet_panic_hook() {
    let verbose = std::env::var("VERIF_VERBOSE").is_ok();
    let default = std::panic::take_hook();
    std::panic::set_hook(Box::new(move |info| {
        let msg = format!("{info}");
        LAST_PANIC.with(|p| *p.borrow_mut() = Some(msg));
        if verbose {
            default(info);
        }
    }));
}

pub fn take_last_panic() -> Option<String> {
    LAST_PANIC.with(|p| p.borrow_mut().take())
}

fn run_guarded<C: Check>(check: &C, case: &C::Case) -> (Verdict, CaseInfo) {
    match std::panic::catch_unwind(std::panic::AssertUnwindSafe(|| check.run(case))) {
        Ok(r) => r,
        Err(_) => {
            let msg = take_last_panic().unwrap_or_else(|| "panic".into());
            // a panic raised inside scrayosnet/passage (its files are compiled from /repo) is a finding; a panic of the
            // harness itself (a listener that did not come up, a refused connect, ...) decides nothing
            let in_passage = msg.lines().next().is_some_and(|l| l.contains("panicked at /repo/"));
            if in_passage {
                (Verdict::Fail { sig: "panic-in-passage-code".into(), msg: format!("panic while running case: {msg}") }, CaseInfo::default())
            } else {
                (Verdict::Inconclusive(format!("harness panic: {}", msg.replace('\n', " | "))), CaseInfo::default())
            }
        }
    }
}

pub struct RunResult {
    pub violations: u64,
    pub inconclusive: u64,
}

struct Violation {
    sig: String,
    msg: String,
    case: Value,
}

fn write_replay(id: &str, case: &Value, sig: &str, msg: &str) -> PathBuf {
    let dir = verif_dir().join("replays").join(id);
    let _ = std::fs::create_dir_all(&dir);
    let h = hash_json(case);
    let path = dir.join(format!("{h:016x}.json"));
    let body = json!({ "property": id, "signature": sig, "message": msg, "case": case });
    let _ = std::fs::write(&path, serde_json::to_string_pretty(&body).unwrap());
    path
}

/// load a case either from a replay file ({"case": ...}) or a bare case file
pub fn load_case<T: DeserializeOwned>(path: &Path) -> Result<T, String> {
    let txt = std::fs::read_to_string(path).map_err(|e| format!("{}: {e}", path.display()))?;
    let v: Value = serde_json::from_str(&txt).map_err(|e| format!("{}: {e}", path.display()))?;
    let case = match v.get("case") {
        Some(c) => c.clone(),
        None => v,
    };
    serde_json::from_value(case).map_err(|e| format!("{}: {e}", path.display()))
}

fn corpus_files(id: &str) -> Vec<PathBuf> {
    let dir = verif_dir().join("corpus").join(id);
    let mut v: Vec<PathBuf> = std::fs::read_dir(dir)
        .map(|rd| {
            rd.filter_map(|e| e.ok())
                .map(|e| e.path())
                .filter(|p| p.extension().is_some_and(|x| x == "json"))
                .collect()
        })
        .unwrap_or_default();
    v.sort();
    v
}

/// Runs the whole check for one tier and writes the evidence file. Returns the process exit code.
pub fn run_check<C: Check>(check: &C, tier: Tier, seed: u64) -> i32 {
    let started = Instant::now();
    let id = check.id();
    let stats = Arc::new(Stats::default());
    let known = known_sigs(id);
    let known_set: HashSet<String> = known.iter().map(|f| f.signature.clone()).collect();
    let mut violations: Vec<Violation> = Vec::new();

    // 1. known findings: replay their stored reproduction; print the line only if it still fails
    for f in &known {
        let still = match &f.repro {
            Some(rel) => {
                let p = verif_dir().join(rel);
                match load_case::<C::Case>(&p) {
                    Ok(case) => {
                        let (v, _) = run_guarded(check, &case);
                        match v {
                            Verdict::Fail { sig, .. } => sig == f.signature,
                            _ => false,
                        }
                    }
                    Err(e) => {
                        eprintln!("cannot load known-finding repro: {e}");
                        return 2;
                    }
                }
            }
            None => true,
        };
        if still {
            println!("KNOWN-FINDING: property={id} [{}] {}", f.signature, f.what);
        }
    }

    // 2. regression corpus (golden + previously found cases), replayed first in every tier
    let mut corpus_n = 0u64;
    for p in corpus_files(id) {
        match load_case::<C::Case>(&p) {
            Ok(case) => {
                corpus_n += 1;
                let (v, info) = run_guarded(check, &case);
                let cv = serde_json::to_value(&case).unwrap();
                stats.record(hash_json(&cv), &info, || check.sample(&case));
                match v {
                    Verdict::Pass => {}
                    Verdict::Inconclusive(_) => {
                        stats.inconclusive.fetch_add(1, Ordering::Relaxed);
                    }
                    Verdict::Fail { sig, msg } => {
                        if known_set.contains(&sig) {
                            stats.known_hits.fetch_add(1, Ordering::Relaxed);
                            *stats.known_hit_sigs.lock().unwrap().entry(sig).or_insert(0) += 1;
                        } else {
                            violations.push(Violation { sig, msg, case: cv });
                        }
                    }
                }
            }
            Err(e) => {
                eprintln!("corpus file unreadable: {e}");
                return 2;
            }
        }
    }
    stats.set_extra("corpus_cases_replayed", json!(corpus_n));

    // 3. deterministic extra work (exhaustive sweeps, enumerations)
    for (sig, msg, case) in check.extra(tier, seed, &stats) {
        if known_set.contains(&sig) {
            stats.known_hits.fetch_add(1, Ordering::Relaxed);
            *stats.known_hit_sigs.lock().unwrap().entry(sig).or_insert(0) += 1;
        } else {
            violations.push(Violation { sig, msg, case });
        }
    }

    // 4. sharded random search with shrinking
    let shards = check.shards(tier).max(1);
    let total = check.cases(tier);
    let per_shard = total.div_ceil(shards as u64);
    let stop = Arc::new(AtomicBool::new(false));
    let found: Arc<Mutex<Vec<Violation>>> = Arc::new(Mutex::new(Vec::new()));
    if violations.is_empty() && total > 0 {
        std::thread::scope(|scope| {
            for shard in 0..shards {
                let stats = Arc::clone(&stats);
                let stop = Arc::clone(&stop);
                let found = Arc::clone(&found);
                let known_set = known_set.clone();
                std::thread::Builder::new()
                    .name(format!("shard-{shard}"))
                    .stack_size(16 << 20)
                    .spawn_scoped(scope, move || {
                        let mut cfg = Config::default();
                        cfg.cases = u32::try_from(per_shard).unwrap_or(u32::MAX);
                        cfg.failure_persistence = None;
                        cfg.rng_seed = RngSeed::Fixed(mix(seed, id, shard as u64));
                        cfg.max_shrink_iters = check.max_shrink_iters();
                        cfg.max_global_rejects = 1_000_000;
                        cfg.verbose = 0;
                        let mut runner = TestRunner::new(cfg);
                        let strategy = check.strategy(tier);
                        // statistics stop at the first failure (the closure re-runs during shrinking)
                        let failed = AtomicBool::new(false);
                        let last_fail: Mutex<Option<(String, String)>> = Mutex::new(None);
                        let res = runner.run(&strategy, |case| {
                            if stop.load(Ordering::Relaxed) && !failed.load(Ordering::Relaxed) {
                                return Ok(());
                            }
                            let (v, info) = run_guarded(check, &case);
                            if !failed.load(Ordering::Relaxed) {
                                let cv = serde_json::to_value(&case).unwrap_or(Value::Null);
                                stats.record(hash_json(&cv), &info, || check.sample(&case));
                            }
                            match v {
                                Verdict::Pass => Ok(()),
                                Verdict::Inconclusive(why) => {
                                    if !failed.load(Ordering::Relaxed) {
                                        stats.inconclusive.fetch_add(1, Ordering::Relaxed);
                                        let mut e = stats.extra.lock().unwrap();
                                        let list = e.entry("inconclusive_reasons".to_string()).or_insert_with(|| json!([]));
                                        if let Some(a) = list.as_array_mut() {
                                            if a.len() < 5 {
                                                a.push(json!(why));
                                            }
                                        }
                                    }
                                    Ok(())
                                }
                                Verdict::Fail { sig, msg } => {
                                    if known_set.contains(&sig) {
                                        if !failed.load(Ordering::Relaxed) {
                                            stats.known_hits.fetch_add(1, Ordering::Relaxed);
                                            *stats
                                                .known_hit_sigs
                                                .lock()
                                                .unwrap()
                                                .entry(sig)
                                                .or_insert(0) += 1;
                                        }
                                        Ok(())
                                    } else {
                                        failed.store(true, Ordering::Relaxed);
                                        stop.store(true, Ordering::Relaxed);
                                        *last_fail.lock().unwrap() = Some((sig.clone(), msg.clone()));
                                        Err(TestCaseError::fail(format!("[{sig}] {msg}")))
                                    }
                                }
                            }
                        });
                        match res {
                            Ok(()) => {}
                            Err(TestError::Fail(_reason, minimal)) => {
                                // re-run the minimal case to get its own signature and message
                                let (v, _) = run_guarded(check, &minimal);
                                let (sig, msg) = match v {
                                    Verdict::Fail { sig, msg } => (sig, msg),
                                    _ => last_fail
                                        .lock()
                                        .unwrap()
                                        .clone()
                                        .unwrap_or(("unstable".into(), "minimal case did not fail again".into())),
                                };
                                found.lock().unwrap().push(Violation {
                                    sig,
                                    msg,
                                    case: serde_json::to_value(&minimal).unwrap_or(Value::Null),
                                });
                            }
                            Err(TestError::Abort(reason)) => {
                                eprintln!("shard {shard}: generator aborted: {reason}");
                                stats.add_extra_count("generator_aborts", 1);
                            }
                        }
                    })
                    .expect("spawn shard");
            }
        });
    }
    violations.extend(found.lock().unwrap().drain(..));

    // 5. report
    let mut seen = HashSet::new();
    let mut reported = 0u64;
    for v in &violations {
        if !seen.insert(hash_json(&v.case)) {
            continue;
        }
        let path = write_replay(id, &v.case, &v.sig, &v.msg);
        println!("VIOLATION property={id} replay={}", path.display());
        println!("  signature: {}", v.sig);
        println!("  detail: {}", v.msg);
        reported += 1;
    }

    check.finish(&stats);
    let inconclusive = stats.inconclusive.load(Ordering::Relaxed);
    let wall = started.elapsed().as_secs_f64();
    write_evidence(check, tier, seed, &stats, reported, wall);
    let evaluations = stats.evaluations.load(Ordering::Relaxed);
    let nontrivial = stats.nontrivial_hashes.lock().unwrap().len();
    println!(
        "{id} {}: evaluations={evaluations} distinct_nontrivial={nontrivial} known_finding_hits={} inconclusive={inconclusive} violations={reported} wall={wall:.1}s seed={seed}",
        tier.name(),
        stats.known_hits.load(Ordering::Relaxed),
    );
    if reported > 0 {
        return 1;
    }
    if stats.extra.lock().unwrap().contains_key("generator_aborts") {
        return 2;
    }
    // an inconclusive share above one half means the check decided too little to be believed
    if evaluations > 0 && inconclusive * 2 > evaluations {
        eprintln!("{id}: more than half of the cases were inconclusive");
        return 2;
    }
    0
}

fn write_evidence<C: Check>(check: &C, tier: Tier, seed: u64, stats: &Stats, violations: u64, wall: f64) {
    let id = check.id();
    let mut coverage = serde_json::Map::new();
    coverage.insert("evaluations".into(), json!(stats.evaluations.load(Ordering::Relaxed)));
    coverage.insert(
        "distinct_nontrivial".into(),
        json!(stats.nontrivial_hashes.lock().unwrap().len()),
    );
    if stats.nontrivial_hashes.lock().unwrap().len() >= DISTINCT_CAP {
        coverage.insert("distinct_nontrivial_is_lower_bound".into(), json!(true));
    }
    coverage.insert("rule".into(), json!(check.rule()));
    coverage.insert("samples".into(), Value::Array(stats.samples.lock().unwrap().clone()));
    coverage.insert("classes".into(), json!(*stats.classes.lock().unwrap()));
    coverage.insert("known_finding_hits".into(), json!(stats.known_hits.load(Ordering::Relaxed)));
    coverage.insert("known_finding_hits_by_signature".into(), json!(*stats.known_hit_sigs.lock().unwrap()));
    coverage.insert("inconclusive".into(), json!(stats.inconclusive.load(Ordering::Relaxed)));
    for (k, v) in stats.extra.lock().unwrap().iter() {
        coverage.insert(k.clone(), v.clone());
    }
    let ev = json!({
        "property_id": id,
        "tier": tier.name(),
        "seed": seed,
        "level": "exploration",
        "coverage": Value::Object(coverage),
        "assumptions": check.assumptions(),
        "wall_s": wall,
        "violations": violations,
    });
    let dir = verif_dir().join("evidence");
    let _ = std::fs::create_dir_all(&dir);
    let path = dir.join(format!("{id}.json"));
    std::fs::write(&path, serde_json::to_string_pretty(&ev).unwrap()).expect("write evidence");
}

/// Replays one stored case through the same interpreter and oracle, without proptest.
pub fn replay<C: Check>(check: &C, path: &Path) -> i32 {
    let id = check.id();
    let case: C::Case = match load_case(path) {
        Ok(c) => c,
        Err(e) => {
            eprintln!("{e}");
            return 2;
        }
    };
    let (v, info) = run_guarded(check, &case);
    println!("classes: {:?} nontrivial: {}", info.classes, info.nontrivial);
    match v {
        Verdict::Pass => {
            println!("PASS property={id} replay={}", path.display());
            0
        }
        Verdict::Inconclusive(why) => {
            println!("INCONCLUSIVE property={id}: {why}");
            2
        }
        Verdict::Fail { sig, msg } => {
            let known = known_sigs(id).into_iter().any(|f| f.signature == sig);
            if known {
                println!("KNOWN-FINDING: property={id} [{sig}] {msg}");
                0
            } else {
                println!("VIOLATION property={id} replay={}", path.display());
                println!("  signature: {sig}");
                println!("  detail: {msg}");
                1
            }
        }
    }
}

/// monotone index mapping (shrinks towards 0): maps a u16 to 0..len
pub fn idx(raw: u16, len: usize) -> usize {
    if len == 0 {
        return 0;
    }
    ((raw as usize) * len) >> 16
}

/// helper: boxed strategy from anything
pub fn boxed<S: Strategy + 'static>(s: S) -> BoxedStrategy<S::Value>
where
    S::Value: Debug,
{
    s.boxed()
}

#[macro_export]
macro_rules! fail {
    ($sig:expr, $($arg:tt)*) => {
        return ($crate::runner::Verdict::Fail { sig: $sig.to_string(), msg: format!($($arg)*) })
    };
}
