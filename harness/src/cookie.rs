//! Reference model of passage's authentication cookie: an independent serialiser, the mutation
//! classes of C02 and the acceptance predicate written from the property statement.

use crate::refcodec::{hexbytes, opthexbytes};
use crate::refcrypto;
use crate::sim::PropSpec;
use serde::{Deserialize, Serialize};
use serde_json::{Value, json};
use std::net::{IpAddr, SocketAddr};
use uuid::Uuid;

pub const AUTH_KEY: &str = "passage:authentication";
pub const SESSION_KEY: &str = "passage:session";

#[derive(Clone, Debug, Serialize, Deserialize, PartialEq)]
pub struct Identity {
    pub name: String,
    pub uuid: Uuid,
    pub properties: Vec<PropSpec>,
}

/// what is done to a well-formed, correctly signed cookie before it is presented
#[derive(Clone, Debug, Serialize, Deserialize, PartialEq)]
pub enum Mutation {
    None,
    /// keep only the first n bytes; n is mapped monotonically onto 0..len-1
    Truncate(u16),
    /// keep exactly n bytes (dense around 31/32/33)
    TruncateTo(u8),
    /// flip one bit; position mapped onto 0..8*len
    FlipBit(u16),
    /// flip one bit inside the 32-byte tag
    FlipTagBit(u8),
    /// the body is replaced by these bytes *before* signing (valid tag over something unparseable)
    Body(BodyKind),
    /// only the first 16 tag bytes are correct, the rest zeroed
    HalfTag,
    /// tag computed over the body with the tag prepended (message || tag confusion)
    TagOverTagAndBody,
    /// the tag is the plain SHA-256 of the body (no key)
    UnkeyedTag,
}

#[derive(Clone, Debug, Serialize, Deserialize, PartialEq)]
pub enum BodyKind {
    Empty,
    NotJson,
    JsonArray,
    JsonNull,
    MissingField(u8),
    WrongType(u8),
    /// valid JSON followed by garbage
    TrailingGarbage,
    InvalidUtf8,
}

#[derive(Clone, Debug, Serialize, Deserialize, PartialEq)]
pub struct CookieSpec {
    /// seconds before `now0` (negative = dated in the future)
    pub age: i64,
    /// the address recorded in the cookie
    pub addr: String,
    pub identity: Identity,
    pub target: Option<String>,
    /// None = signed with the configured secret (or an arbitrary one if none is configured)
    #[serde(with = "opthexbytes")]
    pub other_secret: Option<Vec<u8>>,
    pub mutation: Mutation,
}

pub fn body_json(timestamp: u64, addr: &str, id: &Identity, target: &Option<String>) -> Value {
    json!({
        "timestamp": timestamp,
        "client_addr": addr,
        "user_name": id.name,
        "user_id": id.uuid.to_string(),
        "target": target,
        "profile_properties": id.properties.iter().map(|p| json!({"name": p.name, "value": p.value, "signature": p.signature})).collect::<Vec<_>>(),
        "extra": {},
    })
}

const REQUIRED: [&str; 5] = ["timestamp", "client_addr", "user_name", "user_id", "profile_properties"];

/// the bytes the client presents
pub fn build(spec: &CookieSpec, configured: Option<&[u8]>, now0: u64) -> Vec<u8> {
    let timestamp = if spec.age >= 0 { now0.saturating_sub(spec.age as u64) } else { now0.saturating_add(spec.age.unsigned_abs()) };
    let mut body_v = body_json(timestamp, &spec.addr, &spec.identity, &spec.target);
    let mut body: Vec<u8> = serde_json::to_vec(&body_v).unwrap();
    if let Mutation::Body(kind) = &spec.mutation {
        body = match kind {
            BodyKind::Empty => Vec::new(),
            BodyKind::NotJson => b"this is not json at all \x01\x02".to_vec(),
            BodyKind::JsonArray => b"[1,2,3]".to_vec(),
            BodyKind::JsonNull => b"null".to_vec(),
            BodyKind::MissingField(i) => {
                let k = REQUIRED[*i as usize % REQUIRED.len()];
                body_v.as_object_mut().unwrap().remove(k);
                serde_json::to_vec(&body_v).unwrap()
            }
            BodyKind::WrongType(i) => {
                let k = REQUIRED[*i as usize % REQUIRED.len()];
                body_v[k] = if k == "timestamp" { json!("yesterday") } else { json!({"nested": true}) };
                serde_json::to_vec(&body_v).unwrap()
            }
            BodyKind::TrailingGarbage => {
                let mut b = body.clone();
                b.extend_from_slice(b" trailing}");
                b
            }
            BodyKind::InvalidUtf8 => {
                let mut b = body.clone();
                // corrupt a byte inside the user_name string value
                b.push(0xff);
                b.insert(2, 0xfe);
                b
            }
        };
    }
    let fallback = b"some-other-secret".to_vec();
    let key: &[u8] = match (&spec.other_secret, configured) {
        (Some(o), _) => o,
        (None, Some(c)) => c,
        (None, None) => &fallback,
    };
    let mut signed = match &spec.mutation {
        Mutation::TagOverTagAndBody => {
            let tag0 = refcrypto::hmac_sha256(key, &body);
            let mut m = tag0.to_vec();
            m.extend_from_slice(&body);
            let tag = refcrypto::hmac_sha256(key, &m);
            let mut v = tag.to_vec();
            v.extend_from_slice(&body);
            v
        }
        Mutation::UnkeyedTag => {
            let mut v = refcrypto::sha256(&body).to_vec();
            v.extend_from_slice(&body);
            v
        }
        _ => refcrypto::sign_cookie(key, &body),
    };
    match &spec.mutation {
        Mutation::Truncate(raw) => {
            let n = crate::runner::idx(*raw, signed.len());
            signed.truncate(n);
        }
        Mutation::TruncateTo(n) => signed.truncate(*n as usize),
        Mutation::FlipBit(raw) => {
            let bit = crate::runner::idx(*raw, signed.len() * 8);
            signed[bit / 8] ^= 1 << (bit % 8);
        }
        Mutation::FlipTagBit(raw) => {
            let bit = *raw as usize; // 0..256
            signed[bit / 8] ^= 1 << (bit % 8);
        }
        Mutation::HalfTag => {
            for b in signed[16..32].iter_mut() {
                *b = 0;
            }
        }
        _ => {}
    }
    signed
}

/// what a parsed cookie body says
#[derive(Clone, Debug, PartialEq)]
pub struct Parsed {
    pub timestamp: u64,
    pub addr: SocketAddr,
    pub identity: Identity,
    pub target: Option<String>,
}

/// strict, independent parse of the documented cookie JSON
pub fn parse_body(body: &[u8]) -> Option<Parsed> {
    let v: Value = serde_json::from_slice(body).ok()?;
    let o = v.as_object()?;
    let timestamp = o.get("timestamp")?.as_u64()?;
    let addr: SocketAddr = o.get("client_addr")?.as_str()?.parse().ok()?;
    let name = o.get("user_name")?.as_str()?.to_string();
    let uuid = Uuid::parse_str(o.get("user_id")?.as_str()?).ok()?;
    let target = match o.get("target") {
        None | Some(Value::Null) => None,
        Some(Value::String(s)) => Some(s.clone()),
        _ => return None,
    };
    let mut properties = Vec::new();
    for p in o.get("profile_properties")?.as_array()? {
        let p = p.as_object()?;
        let signature = match p.get("signature") {
            None | Some(Value::Null) => None,
            Some(Value::String(s)) => Some(s.clone()),
            _ => return None,
        };
        properties.push(PropSpec { name: p.get("name")?.as_str()?.to_string(), value: p.get("value")?.as_str()?.to_string(), signature });
    }
    if let Some(extra) = o.get("extra") {
        for (_, v) in extra.as_object()? {
            v.as_str()?;
        }
    }
    Some(Parsed { timestamp, addr, identity: Identity { name, uuid, properties }, target })
}

/// tag check with the reference HMAC
pub fn tag_ok(secret: &[u8], presented: &[u8]) -> bool {
    presented.len() >= 32 && refcrypto::hmac_sha256(secret, &presented[32..])[..] == presented[..32]
}

/// The acceptance predicate of C02, from the property statement: Transfer intent, secret configured,
/// correct tag under that secret, body parses, names the connecting client's IP, not older than the
/// configured expiry (saturating arithmetic).
pub fn accept(intent: i32, secret: Option<&[u8]>, presented: Option<&[u8]>, client_ip: IpAddr, expiry: u64, now: u64) -> Option<Parsed> {
    if intent != 3 {
        return None;
    }
    let secret = secret?;
    let presented = presented?;
    if !tag_ok(secret, presented) {
        return None;
    }
    let parsed = parse_body(&presented[32..])?;
    if parsed.addr.ip() != client_ip {
        return None;
    }
    if parsed.timestamp.saturating_add(expiry) < now {
        return None;
    }
    Some(parsed)
}

pub fn now_secs() -> u64 {
    std::time::SystemTime::now().duration_since(std::time::UNIX_EPOCH).expect("clock").as_secs()
}

/// a serialisable bag of bytes for cases
#[derive(Clone, Debug, Serialize, Deserialize, PartialEq)]
pub struct Bytes(#[serde(with = "hexbytes")] pub Vec<u8>);
