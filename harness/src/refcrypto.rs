//! Reference cryptography, independent of the code under test.
//!
//! * AES-128-CFB8 from the raw AES block function (trusted base: `aes::Aes128::encrypt_block`)
//! * HMAC-SHA256 written out over `sha2::Sha256` (trusted base: SHA-256)
//! * Minecraft's signed SHA-1 hex digest over `sha1_smol` (a different SHA-1 than the repo uses)
//! * RSA PKCS#1 v1.5 *encryption* with a hand-parsed SubjectPublicKeyInfo and `num-bigint` modpow
//!   (client side only, deterministic padding bytes from the caller)

use aes::Aes128;
use aes::cipher::{BlockEncrypt, KeyInit, generic_array::GenericArray};
use num_bigint::BigUint;
use sha2::{Digest, Sha256};

/// AES-128-CFB8: 16-byte shift register initialised with the IV, one block encryption per byte.
#[derive(Clone)]
pub struct Cfb8 {
    aes: Aes128,
    reg: [u8; 16],
}

impl Cfb8 {
    /// Minecraft uses key = IV = shared secret
    pub fn new(secret: &[u8; 16]) -> Self {
        Self {
            aes: Aes128::new(GenericArray::from_slice(secret)),
            reg: *secret,
        }
    }

    fn keystream_byte(&self) -> u8 {
        let mut block = GenericArray::clone_from_slice(&self.reg);
        self.aes.encrypt_block(&mut block);
        block[0]
    }

    fn shift_in(&mut self, c: u8) {
        self.reg.copy_within(1.., 0);
        self.reg[15] = c;
    }

    pub fn encrypt_byte(&mut self, p: u8) -> u8 {
        let c = p ^ self.keystream_byte();
        self.shift_in(c);
        c
    }

    pub fn decrypt_byte(&mut self, c: u8) -> u8 {
        let p = c ^ self.keystream_byte();
        self.shift_in(c);
        p
    }

    pub fn encrypt(&mut self, data: &[u8]) -> Vec<u8> {
        data.iter().map(|b| self.encrypt_byte(*b)).collect()
    }

    pub fn decrypt(&mut self, data: &[u8]) -> Vec<u8> {
        data.iter().map(|b| self.decrypt_byte(*b)).collect()
    }
}

pub fn sha256(data: &[u8]) -> [u8; 32] {
    let mut h = Sha256::new();
    h.update(data);
    h.finalize().into()
}

/// HMAC-SHA256 per RFC 2104, written out.
pub fn hmac_sha256(key: &[u8], msg: &[u8]) -> [u8; 32] {
    let mut k = [0u8; 64];
    if key.len() > 64 {
        k[..32].copy_from_slice(&sha256(key));
    } else {
        k[..key.len()].copy_from_slice(key);
    }
    let mut inner = Vec::with_capacity(64 + msg.len());
    inner.extend(k.iter().map(|b| b ^ 0x36));
    inner.extend_from_slice(msg);
    let ih = sha256(&inner);
    let mut outer = Vec::with_capacity(96);
    outer.extend(k.iter().map(|b| b ^ 0x5c));
    outer.extend_from_slice(&ih);
    sha256(&outer)
}

/// tag || message
pub fn sign_cookie(secret: &[u8], body: &[u8]) -> Vec<u8> {
    let mut v = hmac_sha256(secret, body).to_vec();
    v.extend_from_slice(body);
    v
}

/// Formats a 20-byte digest the way Minecraft (`new BigInteger(digest).toString(16)`) does: signed
/// big-endian two's complement, lowercase hex, no leading zeros, leading '-' when negative.
pub fn signed_hex(digest: &[u8; 20]) -> String {
    let negative = digest[0] & 0x80 != 0;
    let mut mag = *digest;
    if negative {
        // two's complement negate: invert, add one
        for b in mag.iter_mut() {
            *b = !*b;
        }
        for b in mag.iter_mut().rev() {
            let (v, carry) = b.overflowing_add(1);
            *b = v;
            if !carry {
                break;
            }
        }
    }
    let mut hex = String::with_capacity(41);
    for b in mag {
        hex.push(char::from_digit(u32::from(b >> 4), 16).unwrap());
        hex.push(char::from_digit(u32::from(b & 15), 16).unwrap());
    }
    let trimmed = hex.trim_start_matches('0');
    let body = if trimmed.is_empty() { "0" } else { trimmed };
    if negative {
        format!("-{body}")
    } else {
        body.to_string()
    }
}

pub fn sha1(parts: &[&[u8]]) -> [u8; 20] {
    let mut h = sha1_smol::Sha1::new();
    for p in parts {
        h.update(p);
    }
    h.digest().bytes()
}

/// Minecraft server hash: sha1(server id, shared secret, encoded public key) as signed hex
pub fn mc_hash(server_id: &str, secret: &[u8], key: &[u8]) -> String {
    signed_hex(&sha1(&[server_id.as_bytes(), secret, key]))
}

// ---------------------------------------------------------------------------------------------
// RSA public key parsing (SubjectPublicKeyInfo DER) and PKCS#1 v1.5 encryption
// ---------------------------------------------------------------------------------------------

#[derive(Clone, Debug)]
pub struct RsaPub {
    pub n: BigUint,
    pub e: BigUint,
    pub k: usize,
}

struct Der<'a> {
    b: &'a [u8],
    p: usize,
}

impl<'a> Der<'a> {
    fn tlv(&mut self) -> Option<(u8, &'a [u8])> {
        let tag = *self.b.get(self.p)?;
        let l0 = *self.b.get(self.p + 1)? as usize;
        self.p += 2;
        let len = if l0 < 0x80 {
            l0
        } else {
            let n = l0 & 0x7f;
            let mut len = 0usize;
            for _ in 0..n {
                len = (len << 8) | (*self.b.get(self.p)? as usize);
                self.p += 1;
            }
            len
        };
        let v = self.b.get(self.p..self.p + len)?;
        self.p += len;
        Some((tag, v))
    }
}

impl RsaPub {
    /// parses `SEQUENCE { SEQUENCE { OID rsaEncryption, NULL }, BIT STRING { SEQUENCE { n, e } } }`
    pub fn from_spki_der(der: &[u8]) -> Option<Self> {
        let (t, outer) = Der { b: der, p: 0 }.tlv()?;
        if t != 0x30 {
            return None;
        }
        let mut o = Der { b: outer, p: 0 };
        let (t, _alg) = o.tlv()?;
        if t != 0x30 {
            return None;
        }
        let (t, bits) = o.tlv()?;
        if t != 0x03 || bits.first() != Some(&0) {
            return None;
        }
        let (t, seq) = Der { b: &bits[1..], p: 0 }.tlv()?;
        if t != 0x30 {
            return None;
        }
        let mut s = Der { b: seq, p: 0 };
        let (t, n) = s.tlv()?;
        if t != 0x02 {
            return None;
        }
        let (t, e) = s.tlv()?;
        if t != 0x02 {
            return None;
        }
        let n = BigUint::from_bytes_be(n);
        let e = BigUint::from_bytes_be(e);
        let k = (n.bits() as usize).div_ceil(8);
        Some(Self { n, e, k })
    }

    /// EME-PKCS1-v1_5: 0x00 0x02 PS 0x00 M, PS = non-zero bytes taken from `pad` (cycled, zero → 0xA5)
    pub fn encrypt_pkcs1(&self, msg: &[u8], pad: &[u8]) -> Option<Vec<u8>> {
        if msg.len() + 11 > self.k {
            return None;
        }
        let ps_len = self.k - msg.len() - 3;
        let mut em = Vec::with_capacity(self.k);
        em.push(0);
        em.push(2);
        for i in 0..ps_len {
            let b = if pad.is_empty() { 0xA5 } else { pad[i % pad.len()] };
            em.push(if b == 0 { 0xA5 } else { b });
        }
        em.push(0);
        em.extend_from_slice(msg);
        let m = BigUint::from_bytes_be(&em);
        let c = m.modpow(&self.e, &self.n);
        let mut out = c.to_bytes_be();
        while out.len() < self.k {
            out.insert(0, 0);
        }
        Some(out)
    }
}

/// A fixed, unrelated 1024-bit RSA public key (n is the product of two fixed primes generated offline;
/// nobody in the harness holds the private key). Used for the "encrypted to another key" class.
pub fn foreign_key() -> RsaPub {
    // n = p*q with p,q 512-bit primes (fixed constants)
    let p = BigUint::parse_bytes(
        b"f7e75fdc469067ffdc4e847c51f452dfb8b1c9f6e3ac86bd7d2b1e3f9c6e3a4b5d2e1f0c9b8a79685746352413f2e1d0cfbeadac9b8a7968574635241302f1e9",
        16,
    )
    .unwrap();
    let q = BigUint::parse_bytes(
        b"e3b0c44298fc1c149afbf4c8996fb92427ae41e4649b934ca495991b7852b855d4c3b2a1908f7e6d5c4b3a291807f6e5d4c3b2a1908f7e6d5c4b3a2918070605",
        16,
    )
    .unwrap();
    // p and q need not be prime for the purpose: the server can never decrypt to a valid padding with
    // its own key anyway; what matters is that the ciphertext is a full-size integer below its modulus
    let n = (p | BigUint::from(1u8)) * (q | BigUint::from(1u8));
    let k = (n.bits() as usize).div_ceil(8);
    RsaPub { n, e: BigUint::from(65537u32), k }
}

#[cfg(test)]
mod tests {
    use super::*;

    #[test]
    fn published_hash_vectors() {
        // wiki.vg: sha1("Notch") etc.
        assert_eq!(signed_hex(&sha1(&[b"Notch"])), "4ed1f46bbe04bc756bcb17c0c7ce3e4632f06a48");
        assert_eq!(signed_hex(&sha1(&[b"jeb_"])), "-7c9d5b0044c130109a5d7b5fb5c317c02b4e28c1");
        assert_eq!(signed_hex(&sha1(&[b"simon"])), "88e16a1019277b15d58faf0541e11910eb756f6");
    }

    #[test]
    fn edge_digests() {
        let mut d = [0u8; 20];
        assert_eq!(signed_hex(&d), "0");
        d[0] = 0x80;
        assert_eq!(signed_hex(&d), "-8000000000000000000000000000000000000000");
        let d = [0xffu8; 20];
        assert_eq!(signed_hex(&d), "-1");
    }

    #[test]
    fn hmac_rfc4231_case2() {
        let tag = hmac_sha256(b"Jefe", b"what do ya want for nothing?");
        let hex: String = tag.iter().map(|b| format!("{b:02x}")).collect();
        assert_eq!(hex, "5bdcc146bf60754e6a042426089575c75a003f089d2739839dec58b964ec3843");
    }

    #[test]
    fn cfb8_nist_vector() {
        // NIST SP 800-38A F.3.7 CFB8-AES128.Encrypt
        let key = [0x2b, 0x7e, 0x15, 0x16, 0x28, 0xae, 0xd2, 0xa6, 0xab, 0xf7, 0x15, 0x88, 0x09, 0xcf, 0x4f, 0x3c];
        let iv: [u8; 16] = [0, 1, 2, 3, 4, 5, 6, 7, 8, 9, 10, 11, 12, 13, 14, 15];
        let mut c = Cfb8 { aes: Aes128::new(GenericArray::from_slice(&key)), reg: iv };
        let pt = [0x6b, 0xc1, 0xbe, 0xe2, 0x2e, 0x40, 0x9f, 0x96, 0xe9, 0x3d, 0x7e, 0x11, 0x73, 0x93, 0x17, 0x2a, 0xae, 0x2d];
        let ct = c.encrypt(&pt);
        assert_eq!(ct, vec![0x3b, 0x79, 0x42, 0x4c, 0x9c, 0x0d, 0xd4, 0x36, 0xba, 0xce, 0x9e, 0x0e, 0xd4, 0x58, 0x6a, 0x4f, 0x32, 0xb9]);
    }
}
