//! A mock Kubernetes API server implementing exactly what kube's watcher asks for:
//! `GET /apis/agones.dev/v1/namespaces/<ns>/gameservers?...&limit=500` (list) and
//! `...?watch=true&...&resourceVersion=N` (watch, chunked JSON lines). One server serves many
//! namespaces, one independent scripted history per namespace.

use serde_json::{Value, json};
use std::collections::{BTreeMap, HashMap};
use std::sync::{Arc, Mutex};
use tokio::io::{AsyncReadExt, AsyncWriteExt};
use tokio::net::TcpListener;

#[derive(Default)]
pub struct NsState {
    /// objects returned by the next list request, by name
    pub objects: BTreeMap<String, Value>,
    pub resource_version: u64,
    /// every watch line ever produced, with the resource version it carries
    pub log: Vec<(u64, String)>,
    /// bumped to make the current watch connection drop
    pub close_epoch: u64,
    /// the next watch request is answered with a 410 Gone error event
    pub gone_pending: bool,
    /// the next list request that carries a continue token is answered with 410 (token expired)
    pub fail_next_continue: bool,
    pub list_requests: u64,
    pub watch_requests: u64,
    pub notify: Arc<tokio::sync::Notify>,
}

#[derive(Default)]
pub struct State {
    pub namespaces: HashMap<String, NsState>,
}

pub struct K8sMock {
    pub port: u16,
    pub state: Arc<Mutex<State>>,
}

fn chunk(data: &[u8]) -> Vec<u8> {
    let mut v = format!("{:x}\r\n", data.len()).into_bytes();
    v.extend_from_slice(data);
    v.extend_from_slice(b"\r\n");
    v
}

impl K8sMock {
    pub async fn start() -> K8sMock {
        let listener = TcpListener::bind("127.0.0.1:0").await.expect("bind");
        let port = listener.local_addr().unwrap().port();
        let state = Arc::new(Mutex::new(State::default()));
        let st = Arc::clone(&state);
        tokio::spawn(async move {
            loop {
                let Ok((sock, _)) = listener.accept().await else { break };
                let _ = sock.set_nodelay(true);
                let st = Arc::clone(&st);
                tokio::spawn(handle(sock, st));
            }
        });
        K8sMock { port, state }
    }

    /// appends one watch line carrying the given resource version
    pub fn push(&self, ns: &str, rv: u64, line: String) {
        let mut s = self.state.lock().unwrap();
        let n = s.namespaces.entry(ns.to_string()).or_default();
        n.log.push((rv, line));
        n.notify.notify_waiters();
    }

    /// drops the current watch connection of the namespace
    pub fn drop_watch(&self, ns: &str) {
        let mut s = self.state.lock().unwrap();
        let n = s.namespaces.entry(ns.to_string()).or_default();
        n.close_epoch += 1;
        n.notify.notify_waiters();
    }

    pub fn with_ns<R>(&self, ns: &str, f: impl FnOnce(&mut NsState) -> R) -> R {
        let mut s = self.state.lock().unwrap();
        f(s.namespaces.entry(ns.to_string()).or_default())
    }

    /// writes a kubeconfig pointing at this server and returns its path
    pub fn write_kubeconfig(&self) -> std::path::PathBuf {
        let dir = std::env::temp_dir().join(format!("verif-kube-{}", std::process::id()));
        let _ = std::fs::create_dir_all(&dir);
        let path = dir.join("config");
        let cfg = format!(
            "apiVersion: v1\nkind: Config\nclusters:\n- name: mock\n  cluster:\n    server: http://127.0.0.1:{}\ncontexts:\n- name: mock\n  context:\n    cluster: mock\n    user: mock\n    namespace: default\ncurrent-context: mock\nusers:\n- name: mock\n  user:\n    token: verif\n",
            self.port
        );
        std::fs::write(&path, cfg).expect("write kubeconfig");
        path
    }
}

async fn handle(mut sock: tokio::net::TcpStream, st: Arc<Mutex<State>>) {
    let mut buf: Vec<u8> = Vec::new();
    loop {
        let end = loop {
            if let Some(p) = buf.windows(4).position(|w| w == b"\r\n\r\n") {
                break Some(p + 4);
            }
            let mut tmp = [0u8; 4096];
            match sock.read(&mut tmp).await {
                Ok(0) | Err(_) => break None,
                Ok(n) => buf.extend_from_slice(&tmp[..n]),
            }
        };
        let Some(end) = end else { return };
        let head: Vec<u8> = buf.drain(..end).collect();
        let head = String::from_utf8_lossy(&head).into_owned();
        let line = head.lines().next().unwrap_or("");
        let target = line.split(' ').nth(1).unwrap_or("");
        let (path, query) = target.split_once('?').unwrap_or((target, ""));
        // /apis/agones.dev/v1/namespaces/<ns>/gameservers
        let ns = path.strip_prefix("/apis/agones.dev/v1/namespaces/").and_then(|r| r.strip_suffix("/gameservers")).map(str::to_string);
        let Some(ns) = ns else {
            let body = b"{\"kind\":\"Status\",\"status\":\"Failure\",\"code\":404,\"reason\":\"NotFound\",\"message\":\"not served by the mock\"}";
            let out = format!("HTTP/1.1 404 Not Found\r\ncontent-type: application/json\r\ncontent-length: {}\r\n\r\n", body.len());
            let _ = sock.write_all(out.as_bytes()).await;
            let _ = sock.write_all(body).await;
            continue;
        };
        let is_watch = query.split('&').any(|p| p == "watch=true" || p == "watch=1");
        if !is_watch {
            let param = |name: &str| query.split('&').find_map(|p| p.strip_prefix(&format!("{name}="))).map(str::to_string);
            let limit: usize = param("limit").and_then(|v| v.parse().ok()).unwrap_or(usize::MAX);
            let offset: usize = param("continue").and_then(|v| v.strip_prefix("off-").and_then(|o| o.parse().ok())).unwrap_or(0);
            let (status, body) = {
                let mut s = st.lock().unwrap();
                let n = s.namespaces.entry(ns.clone()).or_default();
                n.list_requests += 1;
                if offset > 0 && n.fail_next_continue {
                    n.fail_next_continue = false;
                    (410, serde_json::to_vec(&json!({"kind": "Status", "apiVersion": "v1", "metadata": {}, "status": "Failure", "message": "The provided continue parameter is too old", "reason": "Expired", "code": 410})).unwrap())
                } else {
                    let all: Vec<Value> = n.objects.values().cloned().collect();
                    let end = offset.saturating_add(limit).min(all.len());
                    let items: Vec<Value> = all[offset.min(all.len())..end].to_vec();
                    let mut meta = json!({"resourceVersion": n.resource_version.to_string()});
                    if end < all.len() {
                        meta["continue"] = json!(format!("off-{end}"));
                        meta["remainingItemCount"] = json!(all.len() - end);
                    }
                    (200, serde_json::to_vec(&json!({"apiVersion": "agones.dev/v1", "kind": "GameServerList", "metadata": meta, "items": items})).unwrap())
                }
            };
            let out = format!("HTTP/1.1 {status} {}\r\ncontent-type: application/json\r\ncontent-length: {}\r\n\r\n", if status == 200 { "OK" } else { "Gone" }, body.len());
            if sock.write_all(out.as_bytes()).await.is_err() || sock.write_all(&body).await.is_err() {
                return;
            }
            continue;
        }
        // watch
        let from_rv: u64 = query.split('&').find_map(|p| p.strip_prefix("resourceVersion=")).and_then(|v| v.parse().ok()).unwrap_or(0);
        let (gone, notify, epoch) = {
            let mut s = st.lock().unwrap();
            let n = s.namespaces.entry(ns.clone()).or_default();
            n.watch_requests += 1;
            let gone = n.gone_pending;
            n.gone_pending = false;
            (gone, Arc::clone(&n.notify), n.close_epoch)
        };
        if sock.write_all(b"HTTP/1.1 200 OK\r\ncontent-type: application/json\r\ntransfer-encoding: chunked\r\n\r\n").await.is_err() {
            return;
        }
        if gone {
            let ev = json!({"type": "ERROR", "object": {"kind": "Status", "apiVersion": "v1", "metadata": {}, "status": "Failure", "message": "too old resource version", "reason": "Expired", "code": 410}});
            let mut l = serde_json::to_vec(&ev).unwrap();
            l.push(b'\n');
            let _ = sock.write_all(&chunk(&l)).await;
            let _ = sock.write_all(b"0\r\n\r\n").await;
            continue;
        }
        let mut sent = 0usize; // index into the log
        loop {
            // register for the notification before looking at the log (no lost wake-ups)
            let notified = notify.notified();
            tokio::pin!(notified);
            notified.as_mut().enable();
            let (lines, closed): (Vec<String>, bool) = {
                let s = st.lock().unwrap();
                let n = s.namespaces.get(&ns).unwrap();
                let lines = n.log[sent..].iter().filter(|(rv, _)| *rv > from_rv).map(|(_, l)| l.clone()).collect();
                sent = n.log.len();
                (lines, n.close_epoch != epoch)
            };
            if closed {
                // drop the connection in the middle of the stream; nothing produced after the drop was
                // requested may still travel on this connection
                return;
            }
            for l in lines {
                let mut b = l.into_bytes();
                b.push(b'\n');
                if sock.write_all(&chunk(&b)).await.is_err() {
                    return;
                }
            }
            let mut probe = [0u8; 64];
            tokio::select! {
                _ = &mut notified => {}
                r = sock.read(&mut probe) => {
                    if matches!(r, Ok(0) | Err(_)) {
                        return;
                    }
                }
            }
        }
    }
}
