//! tonic mock of the Discovery and Strategy services (stubs generated from the repository's protos).

use std::sync::{Arc, Mutex};
use tonic::{Request, Response, Status};

pub mod pb {
    tonic::include_proto!("scrayosnet.passage.adapter");
}

#[derive(Default)]
pub struct State {
    pub targets_reply: Vec<pb::Target>,
    pub select_reply: Option<pb::Target>,
    pub select_requests: Vec<pb::SelectRequest>,
    pub discovery_calls: u64,
}

#[derive(Clone)]
pub struct Mock {
    pub state: Arc<Mutex<State>>,
}

#[tonic::async_trait]
impl pb::discovery_server::Discovery for Mock {
    async fn get_targets(&self, _req: Request<pb::TargetRequest>) -> Result<Response<pb::TargetsResponse>, Status> {
        let mut s = self.state.lock().unwrap();
        s.discovery_calls += 1;
        Ok(Response::new(pb::TargetsResponse { targets: s.targets_reply.clone() }))
    }
}

#[tonic::async_trait]
impl pb::strategy_server::Strategy for Mock {
    async fn select_target(&self, req: Request<pb::SelectRequest>) -> Result<Response<pb::SelectResponse>, Status> {
        let mut s = self.state.lock().unwrap();
        s.select_requests.push(req.into_inner());
        Ok(Response::new(pb::SelectResponse { target: s.select_reply.clone() }))
    }
}

pub struct GrpcMock {
    pub port: u16,
    pub state: Arc<Mutex<State>>,
}

impl GrpcMock {
    pub async fn start() -> GrpcMock {
        let listener = tokio::net::TcpListener::bind("127.0.0.1:0").await.expect("bind");
        let port = listener.local_addr().unwrap().port();
        let state = Arc::new(Mutex::new(State::default()));
        let mock = Mock { state: Arc::clone(&state) };
        tokio::spawn(async move {
            use tokio_stream::StreamExt;
            let incoming = tokio_stream::wrappers::TcpListenerStream::new(listener).map(|s| {
                s.inspect(|s| {
                    let _ = s.set_nodelay(true);
                })
            });
            let _ = tonic::transport::Server::builder()
                .add_service(pb::discovery_server::DiscoveryServer::new(mock.clone()))
                .add_service(pb::strategy_server::StrategyServer::new(mock))
                .serve_with_incoming(incoming)
                .await;
        });
        GrpcMock { port, state }
    }
}
