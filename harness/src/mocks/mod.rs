//! Loopback mock services (real sockets, real time).
pub mod grpc;
pub mod http;
pub mod k8s;

use std::sync::OnceLock;

/// one multi-thread runtime shared by all real-socket checks of the process (connection pools of the
/// code under test are bound to the runtime they were created on)
pub fn rt() -> &'static tokio::runtime::Runtime {
    static RT: OnceLock<tokio::runtime::Runtime> = OnceLock::new();
    RT.get_or_init(|| tokio::runtime::Builder::new_multi_thread().worker_threads(8).enable_all().build().expect("runtime"))
}
