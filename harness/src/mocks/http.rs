//! A hand-rolled HTTP/1.1 responder: records the raw request head, answers with a scripted reply.

use std::sync::{Arc, Mutex};
use tokio::io::{AsyncReadExt, AsyncWriteExt};
use tokio::net::TcpListener;

#[derive(Clone, Debug)]
pub struct Reply {
    pub status: u16,
    pub body: Vec<u8>,
    pub content_type: &'static str,
}

#[derive(Default)]
pub struct State {
    /// the reply for the next request
    pub next: Option<Reply>,
    /// this many of the next requests are read and then dropped without any answer (transport failure)
    pub drop_next: u32,
    /// raw request heads, in arrival order
    pub heads: Vec<Vec<u8>>,
}

pub struct HttpMock {
    pub port: u16,
    pub state: Arc<Mutex<State>>,
}

fn reason(status: u16) -> &'static str {
    match status {
        200 => "OK",
        204 => "No Content",
        403 => "Forbidden",
        404 => "Not Found",
        500 => "Internal Server Error",
        _ => "Status",
    }
}

impl HttpMock {
    pub async fn start() -> HttpMock {
        let listener = TcpListener::bind("127.0.0.1:0").await.expect("bind");
        let port = listener.local_addr().unwrap().port();
        let state = Arc::new(Mutex::new(State::default()));
        let st = Arc::clone(&state);
        tokio::spawn(async move {
            loop {
                let Ok((mut sock, _)) = listener.accept().await else { break };
                let _ = sock.set_nodelay(true);
                let st = Arc::clone(&st);
                tokio::spawn(async move {
                    let mut buf: Vec<u8> = Vec::new();
                    loop {
                        // read one request head
                        let end = loop {
                            if let Some(p) = buf.windows(4).position(|w| w == b"\r\n\r\n") {
                                break Some(p + 4);
                            }
                            let mut tmp = [0u8; 4096];
                            match sock.read(&mut tmp).await {
                                Ok(0) | Err(_) => break None,
                                Ok(n) => buf.extend_from_slice(&tmp[..n]),
                            }
                        };
                        let Some(end) = end else { return };
                        let head: Vec<u8> = buf.drain(..end).collect();
                        let reply = {
                            let mut s = st.lock().unwrap();
                            s.heads.push(head);
                            if s.drop_next > 0 {
                                s.drop_next -= 1;
                                // the connection dies without an answer
                                return;
                            }
                            s.next.clone().unwrap_or(Reply { status: 500, body: b"no reply scripted".to_vec(), content_type: "text/plain" })
                        };
                        let mut out = format!("HTTP/1.1 {} {}\r\ncontent-type: {}\r\ncontent-length: {}\r\n\r\n", reply.status, reason(reply.status), reply.content_type, reply.body.len()).into_bytes();
                        if reply.status != 204 {
                            out.extend_from_slice(&reply.body);
                        } else {
                            out = format!("HTTP/1.1 204 {}\r\n\r\n", reason(204)).into_bytes();
                        }
                        if sock.write_all(&out).await.is_err() {
                            return;
                        }
                    }
                });
            }
        });
        HttpMock { port, state }
    }
}
