//! Deterministic connection simulator: the real `Connection::listen` over a scripted transport,
//! scripted adapters and a reactive client built on the reference codec/crypto, under tokio's paused
//! clock with a seeded `select!` RNG. Everything observable is logged into a trace with virtual
//! timestamps; all oracles are predicates over that trace.

use crate::refcodec::{self as rc, Dir, Phase, Pkt, hexbytes};
use crate::refcrypto::{Cfb8, RsaPub};
use passage_adapters::authentication::{AuthenticationAdapter, Profile, ProfileProperty};
use passage_adapters::discovery::DiscoveryAdapter;
use passage_adapters::filter::FilterAdapter;
use passage_adapters::localization::LocalizationAdapter;
use passage_adapters::status::StatusAdapter;
use passage_adapters::strategy::StrategyAdapter;
use passage_adapters::{FixedLocalizationAdapter, Protocol, ServerStatus, Target};
use passage_protocol::connection::Connection;
use serde::{Deserialize, Serialize};
use serde_json::{Value, json};
use std::cell::Cell;
use std::collections::{BTreeMap, HashMap, VecDeque};
use std::future::Future;
use std::net::SocketAddr;
use std::pin::Pin;
use std::sync::{Arc, Mutex};
use std::task::{Context, Poll, Waker};
use std::time::Duration;
use tokio::io::{AsyncRead, AsyncWrite, ReadBuf};
use tokio::sync::Notify;
use tokio::time::Instant;
use uuid::Uuid;

// ---------------------------------------------------------------------------------------------
// allocation meter
// ---------------------------------------------------------------------------------------------

thread_local! {
    static METER_ACTIVE: Cell<bool> = const { Cell::new(false) };
    static METER_MAX: Cell<usize> = const { Cell::new(0) };
}

/// Counting allocator: while the thread-local flag is set, records the largest single request.
pub struct MeterAlloc;

unsafe impl std::alloc::GlobalAlloc for MeterAlloc {
    unsafe fn alloc(&self, layout: std::alloc::Layout) -> *mut u8 {
        note(layout.size());
        unsafe { std::alloc::System.alloc(layout) }
    }
    unsafe fn dealloc(&self, ptr: *mut u8, layout: std::alloc::Layout) {
        unsafe { std::alloc::System.dealloc(ptr, layout) }
    }
    unsafe fn alloc_zeroed(&self, layout: std::alloc::Layout) -> *mut u8 {
        note(layout.size());
        unsafe { std::alloc::System.alloc_zeroed(layout) }
    }
    unsafe fn realloc(&self, ptr: *mut u8, layout: std::alloc::Layout, new_size: usize) -> *mut u8 {
        note(new_size);
        unsafe { std::alloc::System.realloc(ptr, layout, new_size) }
    }
}

#[inline]
fn note(size: usize) {
    let _ = METER_ACTIVE.try_with(|a| {
        if a.get() {
            let _ = METER_MAX.try_with(|m| {
                if size > m.get() {
                    m.set(size);
                }
            });
        }
    });
}

pub fn meter_start() {
    METER_MAX.with(|m| m.set(0));
    METER_ACTIVE.with(|a| a.set(false));
}

pub fn meter_stop() -> usize {
    METER_ACTIVE.with(|a| a.set(false));
    METER_MAX.with(|m| m.get())
}

// ---------------------------------------------------------------------------------------------
// scripts (serialisable parts of a case)
// ---------------------------------------------------------------------------------------------

#[derive(Clone, Debug, Serialize, Deserialize, PartialEq)]
pub enum WStep {
    All,
    /// accept at most k bytes
    Prefix(u16),
    /// Pending + immediate wake
    PendingWake,
    /// Pending until `ms` virtual milliseconds later
    PendingFor(u16),
}

#[derive(Clone, Debug, Default, Serialize, Deserialize, PartialEq)]
pub struct TransportScript {
    /// per poll_write acceptance pattern; after the script: accept everything
    pub wscript: Vec<WStep>,
    /// per poll_read maximum chunk size (0 = Pending + wake); after the script: unlimited
    pub rscript: Vec<u16>,
}

#[derive(Clone, Debug, Serialize, Deserialize, PartialEq)]
pub struct TargetSpec {
    pub identifier: String,
    pub addr: String,
    pub meta: BTreeMap<String, String>,
}

impl TargetSpec {
    pub fn to_target(&self) -> Target {
        Target {
            identifier: self.identifier.clone(),
            address: self.addr.parse().expect("target address"),
            meta: self.meta.iter().map(|(k, v)| (k.clone(), v.clone())).collect::<HashMap<_, _>>(),
        }
    }
    pub fn from_target(t: &Target) -> Self {
        Self {
            identifier: t.identifier.clone(),
            addr: t.address.to_string(),
            meta: t.meta.iter().map(|(k, v)| (k.clone(), v.clone())).collect(),
        }
    }
}

#[derive(Clone, Debug, Serialize, Deserialize, PartialEq)]
pub struct PropSpec {
    pub name: String,
    pub value: String,
    pub signature: Option<String>,
}

#[derive(Clone, Debug, Serialize, Deserialize, PartialEq)]
pub struct ProfileSpec {
    pub name: String,
    pub id: Uuid,
    pub properties: Vec<PropSpec>,
}

impl ProfileSpec {
    pub fn to_profile(&self) -> Profile {
        Profile {
            id: self.id,
            name: self.name.clone(),
            properties: self
                .properties
                .iter()
                .map(|p| ProfileProperty { name: p.name.clone(), value: p.value.clone(), signature: p.signature.clone() })
                .collect(),
            profile_actions: vec![],
        }
    }
}

#[derive(Clone, Debug, Serialize, Deserialize, PartialEq)]
pub enum AuthV {
    Ok(ProfileSpec),
    /// vouch for exactly the claimed identity (what an honest session server does for an honest client)
    Echo,
    Err,
}

#[derive(Clone, Debug, Serialize, Deserialize, PartialEq)]
pub enum FilterV {
    Identity,
    /// keep element i iff bit i is set
    Mask(u16),
    /// rotate left by k
    Rotate(u8),
    Reverse,
    Empty,
    Err,
}

#[derive(Clone, Debug, Serialize, Deserialize, PartialEq)]
pub enum StrategyV {
    /// index into the received list (monotone mapping of the raw value); None when the list is empty
    Pick(u16),
    None,
    /// a target that is not in the list
    Foreign(TargetSpec),
    Err,
}

#[derive(Clone, Debug, Serialize, Deserialize, PartialEq)]
pub enum StatusV {
    None,
    Some {
        name: String,
        protocol: i32,
        players: Option<(u32, u32, Option<Vec<(String, String)>>)>,
        description: Option<String>,
        favicon: Option<String>,
        enforces_secure_chat: Option<bool>,
    },
    Err,
}

#[derive(Clone, Debug, Serialize, Deserialize, PartialEq)]
pub enum LocV {
    /// returns "<key>|<locale or ->" as a plain string, so the arguments are observable
    Echo,
    /// the real FixedLocalizationAdapter with this default locale and these tables
    Fixed { default_locale: String, tables: BTreeMap<String, BTreeMap<String, String>> },
    Err,
}

#[derive(Clone, Debug, Serialize, Deserialize, PartialEq)]
pub struct AdapterScript {
    pub status: StatusV,
    pub auth: AuthV,
    pub auth_ms: u32,
    pub discovery: Option<Vec<TargetSpec>>,
    pub discovery_ms: u32,
    pub filter: FilterV,
    pub filter_ms: u32,
    pub strategy: StrategyV,
    pub strategy_ms: u32,
    pub loc: LocV,
    /// discovery additionally blocks for this much *real* time (the wall clock advances, the virtual does not)
    #[serde(default)]
    pub discovery_real_ms: u32,
}

impl Default for AdapterScript {
    fn default() -> Self {
        Self {
            status: StatusV::None,
            auth: AuthV::Echo,
            auth_ms: 0,
            discovery: Some(vec![]),
            discovery_ms: 0,
            filter: FilterV::Identity,
            filter_ms: 0,
            strategy: StrategyV::Pick(0),
            strategy_ms: 0,
            loc: LocV::Echo,
            discovery_real_ms: 0,
        }
    }
}

#[derive(Clone, Debug, Serialize, Deserialize, PartialEq)]
pub struct ConnCfg {
    #[serde(with = "crate::refcodec::opthexbytes")]
    pub secret: Option<Vec<u8>>,
    pub expiry: u64,
    pub max_len: i32,
    pub client_addr: String,
}

impl Default for ConnCfg {
    fn default() -> Self {
        Self { secret: None, expiry: 21600, max_len: 10_000, client_addr: "203.0.113.7:50123".into() }
    }
}

// ---------------------------------------------------------------------------------------------
// trace
// ---------------------------------------------------------------------------------------------

#[derive(Clone, Debug, Serialize, PartialEq)]
pub enum Event {
    /// an adapter was called (arguments as JSON)
    Call { t: u64, kind: &'static str, args: Value },
    /// an adapter returned
    Return { t: u64, kind: &'static str, ok: bool },
    /// a complete clientbound frame (time = when its last byte was accepted by the transport)
    Cb { t: u64, pkt: Pkt },
    /// a clientbound frame the reference codec could not decode
    CbUndecodable { t: u64, id: i32, err: String },
    /// a complete serverbound frame became readable (time of its last byte)
    Sb { t: u64, kind: String },
}

#[derive(Clone, Debug, PartialEq)]
pub enum ServerEnd {
    Returned { t: u64, ok: bool, label: String },
    Panicked { msg: String },
    /// did not return within the virtual-time cap
    Hung,
}

pub struct Shared {
    start: Instant,
    // client -> server
    inbound: VecDeque<u8>,
    pub in_total: Vec<u8>,
    eof: bool,
    eof_reads: u64,
    pub eof_at: Option<u64>,
    read_waker: Option<Waker>,
    rscript: Vec<u16>,
    rpos: usize,
    pub pulled: u64,
    /// (t, total bytes pulled after this read)
    pub pull_log: Vec<(u64, u64)>,
    // server -> client
    pub out: Vec<u8>,
    /// (t, out.len() after this accept)
    pub out_log: Vec<(u64, usize)>,
    wscript: Vec<WStep>,
    wpos: usize,
    pub write_disturbed: bool,
    write_blocked_until: Option<Instant>,
    write_waker: Option<Waker>,
    notify: Arc<Notify>,
    pub events: Vec<Event>,
    /// (adapter kind, wall-clock second) at every adapter return
    pub wall_marks: Vec<(&'static str, u64)>,
    pub server_end: Option<ServerEnd>,
    pub shutdown_called: bool,
}

impl Shared {
    pub fn now_ms(&self) -> u64 {
        Instant::now().duration_since(self.start).as_millis() as u64
    }
}

pub type Sh = Arc<Mutex<Shared>>;

/// server side of the scripted transport
pub struct SimStream {
    sh: Sh,
}

impl AsyncRead for SimStream {
    fn poll_read(self: Pin<&mut Self>, cx: &mut Context<'_>, buf: &mut ReadBuf<'_>) -> Poll<std::io::Result<()>> {
        let mut s = self.sh.lock().unwrap();
        if s.inbound.is_empty() {
            if s.eof {
                s.eof_reads += 1;
                if s.eof_reads > 10_000 {
                    // release the lock first: a poisoned mutex would turn the unwinding into an abort
                    drop(s);
                    panic!("the connection handler keeps reading after the end of stream (10000 reads at EOF)");
                }
                return Poll::Ready(Ok(()));
            }
            s.read_waker = Some(cx.waker().clone());
            return Poll::Pending;
        }
        let step = s.rscript.get(s.rpos).copied();
        s.rpos += 1;
        let max = match step {
            Some(0) => {
                cx.waker().wake_by_ref();
                return Poll::Pending;
            }
            Some(k) => k as usize,
            None => usize::MAX,
        };
        let n = max.min(s.inbound.len()).min(buf.remaining());
        {
            let (a, b) = s.inbound.as_slices();
            let na = n.min(a.len());
            buf.put_slice(&a[..na]);
            if n > na {
                buf.put_slice(&b[..n - na]);
            }
        }
        s.inbound.drain(..n);
        s.pulled += n as u64;
        let t = s.now_ms();
        let p = s.pulled;
        s.pull_log.push((t, p));
        Poll::Ready(Ok(()))
    }
}

impl AsyncWrite for SimStream {
    fn poll_write(self: Pin<&mut Self>, cx: &mut Context<'_>, buf: &[u8]) -> Poll<std::io::Result<usize>> {
        let this = self.get_mut();
        let mut s = this.sh.lock().unwrap();
        if let Some(until) = s.write_blocked_until {
            if Instant::now() < until {
                // a timer task wakes the most recent waker when the block ends
                s.write_waker = Some(cx.waker().clone());
                return Poll::Pending;
            }
            s.write_blocked_until = None;
        }
        let step = s.wscript.get(s.wpos).cloned().unwrap_or(WStep::All);
        s.wpos += 1;
        let n = match step {
            WStep::All => buf.len(),
            WStep::Prefix(k) => {
                let n = (k.max(1) as usize).min(buf.len());
                if n < buf.len() {
                    s.write_disturbed = true;
                }
                n
            }
            WStep::PendingWake => {
                s.write_disturbed = true;
                cx.waker().wake_by_ref();
                return Poll::Pending;
            }
            WStep::PendingFor(ms) => {
                s.write_disturbed = true;
                let d = Duration::from_millis(u64::from(ms.max(1)));
                s.write_blocked_until = Some(Instant::now() + d);
                s.write_waker = Some(cx.waker().clone());
                let sh = Arc::clone(&this.sh);
                tokio::spawn(async move {
                    tokio::time::sleep(d).await;
                    let w = sh.lock().unwrap().write_waker.take();
                    if let Some(w) = w {
                        w.wake();
                    }
                });
                return Poll::Pending;
            }
        };
        s.out.extend_from_slice(&buf[..n]);
        let t = s.now_ms();
        let l = s.out.len();
        s.out_log.push((t, l));
        s.notify.notify_one();
        Poll::Ready(Ok(n))
    }
    fn poll_flush(self: Pin<&mut Self>, _cx: &mut Context<'_>) -> Poll<std::io::Result<()>> {
        Poll::Ready(Ok(()))
    }
    fn poll_shutdown(self: Pin<&mut Self>, _cx: &mut Context<'_>) -> Poll<std::io::Result<()>> {
        self.sh.lock().unwrap().shutdown_called = true;
        Poll::Ready(Ok(()))
    }
}

// ---------------------------------------------------------------------------------------------
// scripted adapters
// ---------------------------------------------------------------------------------------------

pub struct SimAdapters {
    sh: Sh,
    script: AdapterScript,
    fixed_loc: Option<FixedLocalizationAdapter>,
}

impl std::fmt::Debug for SimAdapters {
    fn fmt(&self, f: &mut std::fmt::Formatter<'_>) -> std::fmt::Result {
        write!(f, "SimAdapters")
    }
}

fn sim_err() -> passage_adapters::Error {
    passage_adapters::Error::AdapterUnavailable { adapter_type: "sim", reason: "scripted failure" }
}

fn targets_json(ts: &[Target]) -> Value {
    Value::Array(ts.iter().map(|t| serde_json::to_value(TargetSpec::from_target(t)).unwrap()).collect())
}

impl SimAdapters {
    pub fn new(sh: Sh, script: AdapterScript) -> Self {
        let fixed_loc = match &script.loc {
            LocV::Fixed { default_locale, tables } => Some(FixedLocalizationAdapter::new(
                default_locale.clone(),
                tables.iter().map(|(k, v)| (k.clone(), v.iter().map(|(a, b)| (a.clone(), b.clone())).collect())).collect(),
            )),
            _ => None,
        };
        Self { sh, script, fixed_loc }
    }
    fn call(&self, kind: &'static str, args: Value) {
        let mut s = self.sh.lock().unwrap();
        let t = s.now_ms();
        s.events.push(Event::Call { t, kind, args });
    }
    fn ret(&self, kind: &'static str, ok: bool) {
        let wall = std::time::SystemTime::now().duration_since(std::time::UNIX_EPOCH).map(|d| d.as_secs()).unwrap_or(0);
        let mut s = self.sh.lock().unwrap();
        let t = s.now_ms();
        s.events.push(Event::Return { t, kind, ok });
        s.wall_marks.push((kind, wall));
    }
}

async fn latency(ms: u32) {
    if ms > 0 {
        tokio::time::sleep(Duration::from_millis(u64::from(ms))).await;
    }
}

impl StatusAdapter for SimAdapters {
    async fn status(&self, client_addr: &SocketAddr, server_addr: (&str, u16), protocol: Protocol) -> passage_adapters::Result<Option<ServerStatus>> {
        self.call("status", json!({"client_addr": client_addr.to_string(), "host": server_addr.0, "port": server_addr.1, "protocol": protocol}));
        let r = match &self.script.status {
            StatusV::None => Ok(None),
            StatusV::Err => Err(sim_err()),
            StatusV::Some { name, protocol, players, description, favicon, enforces_secure_chat } => Ok(Some(ServerStatus {
                version: passage_adapters::ServerVersion { name: name.clone(), protocol: *protocol },
                players: players.as_ref().map(|(online, max, sample)| passage_adapters::ServerPlayers {
                    online: *online,
                    max: *max,
                    sample: sample.as_ref().map(|v| v.iter().map(|(n, i)| passage_adapters::ServerPlayer { name: n.clone(), id: i.clone() }).collect()),
                }),
                description: description.as_ref().and_then(|d| serde_json::value::RawValue::from_string(d.clone()).ok()),
                favicon: favicon.clone(),
                enforces_secure_chat: *enforces_secure_chat,
            })),
        };
        self.ret("status", r.is_ok());
        r
    }
}

impl AuthenticationAdapter for SimAdapters {
    async fn authenticate(
        &self,
        client_addr: &SocketAddr,
        server_addr: (&str, u16),
        protocol: Protocol,
        user: (&str, &Uuid),
        shared_secret: &[u8],
        encoded_public: &[u8],
    ) -> passage_adapters::Result<Profile> {
        self.call(
            "authenticate",
            json!({"client_addr": client_addr.to_string(), "host": server_addr.0, "port": server_addr.1, "protocol": protocol,
                   "name": user.0, "uuid": user.1.to_string(), "shared_secret": rc::to_hex(shared_secret), "public_key": rc::to_hex(encoded_public)}),
        );
        latency(self.script.auth_ms).await;
        let r = match &self.script.auth {
            AuthV::Ok(p) => Ok(p.to_profile()),
            AuthV::Echo => Ok(Profile { id: *user.1, name: user.0.to_string(), properties: vec![], profile_actions: vec![] }),
            AuthV::Err => Err(sim_err()),
        };
        self.ret("authenticate", r.is_ok());
        r
    }
}

impl DiscoveryAdapter for SimAdapters {
    async fn discover(&self) -> passage_adapters::Result<Vec<Target>> {
        self.call("discover", json!({}));
        latency(self.script.discovery_ms).await;
        if self.script.discovery_real_ms > 0 {
            std::thread::sleep(Duration::from_millis(u64::from(self.script.discovery_real_ms)));
        }
        let r = match &self.script.discovery {
            Some(ts) => Ok(ts.iter().map(TargetSpec::to_target).collect()),
            None => Err(sim_err()),
        };
        self.ret("discover", r.is_ok());
        r
    }
}

pub fn apply_filter(v: &FilterV, targets: Vec<TargetSpec>) -> Option<Vec<TargetSpec>> {
    Some(match v {
        FilterV::Identity => targets,
        FilterV::Mask(m) => targets.into_iter().enumerate().filter(|(i, _)| *i < 16 && (m >> i) & 1 == 1).map(|(_, t)| t).collect(),
        FilterV::Rotate(k) => {
            let mut t = targets;
            if !t.is_empty() {
                let k = (*k as usize) % t.len();
                t.rotate_left(k);
            }
            t
        }
        FilterV::Reverse => targets.into_iter().rev().collect(),
        FilterV::Empty => vec![],
        FilterV::Err => return None,
    })
}

/// Ok(Some(target)) / Ok(None) / Err
pub fn apply_strategy(v: &StrategyV, targets: &[TargetSpec]) -> Result<Option<TargetSpec>, ()> {
    match v {
        StrategyV::Pick(raw) => {
            if targets.is_empty() {
                Ok(None)
            } else {
                Ok(Some(targets[crate::runner::idx(*raw, targets.len())].clone()))
            }
        }
        StrategyV::None => Ok(None),
        StrategyV::Foreign(t) => Ok(Some(t.clone())),
        StrategyV::Err => Err(()),
    }
}

impl FilterAdapter for SimAdapters {
    async fn filter(
        &self,
        client_addr: &SocketAddr,
        server_addr: (&str, u16),
        protocol: Protocol,
        user: (&str, &Uuid),
        targets: Vec<Target>,
    ) -> passage_adapters::Result<Vec<Target>> {
        self.call(
            "filter",
            json!({"client_addr": client_addr.to_string(), "host": server_addr.0, "port": server_addr.1, "protocol": protocol,
                   "name": user.0, "uuid": user.1.to_string(), "targets": targets_json(&targets)}),
        );
        latency(self.script.filter_ms).await;
        let specs: Vec<TargetSpec> = targets.iter().map(TargetSpec::from_target).collect();
        let r = match apply_filter(&self.script.filter, specs) {
            Some(v) => Ok(v.iter().map(TargetSpec::to_target).collect()),
            None => Err(sim_err()),
        };
        self.ret("filter", r.is_ok());
        r
    }
}

impl StrategyAdapter for SimAdapters {
    async fn select(
        &self,
        client_addr: &SocketAddr,
        server_addr: (&str, u16),
        protocol: Protocol,
        user: (&str, &Uuid),
        targets: Vec<Target>,
    ) -> passage_adapters::Result<Option<Target>> {
        self.call(
            "select",
            json!({"client_addr": client_addr.to_string(), "host": server_addr.0, "port": server_addr.1, "protocol": protocol,
                   "name": user.0, "uuid": user.1.to_string(), "targets": targets_json(&targets)}),
        );
        latency(self.script.strategy_ms).await;
        let specs: Vec<TargetSpec> = targets.iter().map(TargetSpec::from_target).collect();
        let r = match apply_strategy(&self.script.strategy, &specs) {
            Ok(v) => Ok(v.map(|t| t.to_target())),
            Err(()) => Err(sim_err()),
        };
        self.ret("select", r.is_ok());
        r
    }
}

impl LocalizationAdapter for SimAdapters {
    async fn localize(&self, locale: Option<&str>, key: &str, params: &[(&'static str, String)]) -> passage_adapters::Result<String> {
        self.call("localize", json!({"locale": locale, "key": key, "params": params.len()}));
        let r = match &self.script.loc {
            LocV::Echo => Ok(format!("{key}|{}", locale.unwrap_or("-"))),
            LocV::Err => Err(sim_err()),
            LocV::Fixed { .. } => self.fixed_loc.as_ref().unwrap().localize(locale, key, params).await,
        };
        self.ret("localize", r.is_ok());
        r
    }
}

// ---------------------------------------------------------------------------------------------
// client toolkit
// ---------------------------------------------------------------------------------------------

pub struct Client {
    pub sh: Sh,
    notify: Arc<Notify>,
    pub enc: Option<Cfb8>,
    pub dec: Option<Cfb8>,
    /// how many bytes of `out` have been taken (and decrypted if applicable)
    taken: usize,
    /// decrypted clientbound byte stream
    pub plain: Vec<u8>,
    parsed: usize,
    /// phase used to decode clientbound ids
    pub cb_phase: Phase,
    /// decoded clientbound frames so far (t, pkt)
    pub got: Vec<(u64, Pkt)>,
    next_unread: usize,
    /// set when the clientbound stream cannot be split into frames any more
    pub stream_broken: Option<String>,
    /// the last Encryption Request seen
    pub enc_req: Option<(Vec<u8>, Vec<u8>, bool)>,
}

impl Client {
    pub fn now_ms(&self) -> u64 {
        self.sh.lock().unwrap().now_ms()
    }

    /// makes `bytes` (plaintext as the client means them) readable for the server now
    pub fn push(&mut self, bytes: &[u8]) {
        let wire = match self.enc.as_mut() {
            Some(e) => e.encrypt(bytes),
            None => bytes.to_vec(),
        };
        self.push_wire(&wire);
    }

    /// raw bytes on the wire, bypassing the client's cipher
    pub fn push_wire(&mut self, wire: &[u8]) {
        let mut s = self.sh.lock().unwrap();
        s.inbound.extend(wire.iter().copied());
        s.in_total.extend_from_slice(wire);
        if let Some(w) = s.read_waker.take() {
            w.wake();
        }
    }

    pub fn send(&mut self, pkt: &Pkt) {
        let f = pkt.frame();
        self.push(&f);
        let mut s = self.sh.lock().unwrap();
        let t = s.now_ms();
        s.events.push(Event::Sb { t, kind: pkt.kind().to_string() });
    }

    pub fn note_sb(&mut self, kind: &str) {
        let mut s = self.sh.lock().unwrap();
        let t = s.now_ms();
        s.events.push(Event::Sb { t, kind: kind.to_string() });
    }

    pub fn close(&mut self) {
        let mut s = self.sh.lock().unwrap();
        if !s.eof {
            s.eof = true;
            s.eof_at = Some(s.now_ms());
        }
        if let Some(w) = s.read_waker.take() {
            w.wake();
        }
    }

    /// lets every other task run until it blocks (1 ms of virtual time)
    pub async fn settle(&self) {
        tokio::time::sleep(Duration::from_millis(1)).await;
    }

    pub fn server_done(&self) -> bool {
        self.sh.lock().unwrap().server_end.is_some()
    }

    pub fn enable_encryption(&mut self, secret: &[u8; 16]) {
        self.pump();
        self.enc = Some(Cfb8::new(secret));
        self.dec = Some(Cfb8::new(secret));
    }

    /// takes new outbound bytes, decrypts, splits and decodes frames
    pub fn pump(&mut self) {
        let (new, log): (Vec<u8>, Vec<(u64, usize)>) = {
            let s = self.sh.lock().unwrap();
            (s.out[self.taken..].to_vec(), s.out_log.clone())
        };
        if !new.is_empty() {
            self.taken += new.len();
            let p = match self.dec.as_mut() {
                Some(d) => d.decrypt(&new),
                None => new,
            };
            self.plain.extend_from_slice(&p);
        }
        while self.stream_broken.is_none() {
            match rc::split_frame(&self.plain[self.parsed..]) {
                Ok(Some(f)) => {
                    self.parsed += f.wire_len;
                    // time at which the last byte of this frame was accepted
                    let t = log.iter().find(|(_, l)| *l >= self.parsed).map(|(t, _)| *t).unwrap_or(0);
                    match Pkt::decode(self.cb_phase, Dir::Cb, f.id, &f.body) {
                        Ok(pkt) => {
                            if let Pkt::EncryptionRequest { public_key, verify_token, should_authenticate, .. } = &pkt {
                                self.enc_req = Some((public_key.clone(), verify_token.clone(), *should_authenticate));
                            }
                            if matches!(pkt, Pkt::LoginSuccess { .. }) {
                                self.cb_phase = Phase::Config;
                            }
                            self.sh.lock().unwrap().events.push(Event::Cb { t, pkt: pkt.clone() });
                            self.got.push((t, pkt));
                        }
                        Err(e) => {
                            self.sh.lock().unwrap().events.push(Event::CbUndecodable { t, id: f.id, err: format!("{e:?}") });
                        }
                    }
                }
                Ok(None) => break,
                Err(e) => {
                    self.stream_broken = Some(format!("clientbound stream does not split into frames at offset {}: {e:?}", self.parsed));
                }
            }
        }
    }

    /// next decoded clientbound packet; None once the server has ended and nothing is left
    pub async fn next(&mut self) -> Option<(u64, Pkt)> {
        loop {
            self.pump();
            if self.next_unread < self.got.len() {
                self.next_unread += 1;
                return Some(self.got[self.next_unread - 1].clone());
            }
            if self.server_done() || self.stream_broken.is_some() {
                return None;
            }
            let n = Arc::clone(&self.notify);
            n.notified().await;
        }
    }

    /// like `next`, but gives up at the given virtual instant (ms since start)
    pub async fn next_until(&mut self, deadline_ms: u64) -> Option<(u64, Pkt)> {
        let start = self.sh.lock().unwrap().start;
        let dl = start + Duration::from_millis(deadline_ms);
        tokio::time::timeout_at(dl, self.next()).await.ok().flatten()
    }

    /// non-blocking: everything decoded so far that was not yet returned by `next`
    pub fn drain(&mut self) -> Vec<(u64, Pkt)> {
        self.pump();
        let v = self.got[self.next_unread..].to_vec();
        self.next_unread = self.got.len();
        v
    }

    pub async fn sleep_until_ms(&self, at_ms: u64) {
        let start = self.sh.lock().unwrap().start;
        tokio::time::sleep_until(start + Duration::from_millis(at_ms)).await;
    }

    /// builds the Encryption Response for the last Encryption Request
    pub fn encryption_response(&self, variant: &EncResp, secret: &[u8]) -> Option<Pkt> {
        let (key_der, token, _) = self.enc_req.clone()?;
        let key = RsaPub::from_spki_der(&key_der)?;
        let pad = [0x5Au8, 0x11, 0x7f, 0x03];
        Some(match variant {
            EncResp::Honest => Pkt::EncryptionResponse { secret: key.encrypt_pkcs1(secret, &pad)?, token: key.encrypt_pkcs1(&token, &pad)? },
            EncResp::WrongToken(t) => Pkt::EncryptionResponse { secret: key.encrypt_pkcs1(secret, &pad)?, token: key.encrypt_pkcs1(t, &pad)? },
            EncResp::TokenPrefix(n) => {
                let n = (*n as usize).min(token.len());
                Pkt::EncryptionResponse { secret: key.encrypt_pkcs1(secret, &pad)?, token: key.encrypt_pkcs1(&token[..n], &pad)? }
            }
            EncResp::TokenFlip(i) => {
                let mut t = token.clone();
                let i = (*i as usize) % (t.len() * 8);
                t[i / 8] ^= 1 << (i % 8);
                Pkt::EncryptionResponse { secret: key.encrypt_pkcs1(secret, &pad)?, token: key.encrypt_pkcs1(&t, &pad)? }
            }
            EncResp::ForeignKey => {
                let fk = crate::refcrypto::foreign_key();
                Pkt::EncryptionResponse { secret: fk.encrypt_pkcs1(secret, &pad)?, token: fk.encrypt_pkcs1(&token, &pad)? }
            }
            EncResp::Garbage(a, b) => Pkt::EncryptionResponse { secret: a.clone(), token: b.clone() },
            EncResp::PlainToken => Pkt::EncryptionResponse { secret: key.encrypt_pkcs1(secret, &pad)?, token: token.clone() },
        })
    }
}

/// how the client answers the Encryption Request
#[derive(Clone, Debug, Serialize, Deserialize, PartialEq)]
pub enum EncResp {
    /// the issued token and the shared secret, both encrypted to the server key
    Honest,
    /// some other token (random or harvested from an earlier connection), encrypted to the server key
    WrongToken(#[serde(with = "hexbytes")] Vec<u8>),
    /// only the first n bytes of the issued token
    TokenPrefix(u8),
    /// the issued token with one bit flipped
    TokenFlip(u16),
    /// token and secret encrypted to a different RSA key
    ForeignKey,
    /// arbitrary bytes instead of the two ciphertexts
    Garbage(#[serde(with = "hexbytes")] Vec<u8>, #[serde(with = "hexbytes")] Vec<u8>),
    /// the token sent back unencrypted
    PlainToken,
}

// ---------------------------------------------------------------------------------------------
// running a simulation
// ---------------------------------------------------------------------------------------------

pub struct SimOutcome {
    pub wall_marks: Vec<(&'static str, u64)>,
    pub events: Vec<Event>,
    pub end: ServerEnd,
    pub out: Vec<u8>,
    pub in_total: Vec<u8>,
    pub pulled: u64,
    pub pull_log: Vec<(u64, u64)>,
    pub out_log: Vec<(u64, usize)>,
    pub eof_at: Option<u64>,
    pub max_alloc: usize,
    pub write_disturbed: bool,
    /// decoded clientbound packets (t, pkt) as seen by the client's codec
    pub cb: Vec<(u64, Pkt)>,
    pub stream_broken: Option<String>,
    pub client_timed_out: bool,
    /// unparsed decrypted clientbound bytes left at the end (a partial frame)
    pub cb_leftover: usize,
}

impl SimOutcome {
    pub fn calls(&self, kind: &str) -> Vec<&Value> {
        self.events
            .iter()
            .filter_map(|e| match e {
                Event::Call { kind: k, args, .. } if *k == kind => Some(args),
                _ => None,
            })
            .collect()
    }
    pub fn call_times(&self, kind: &str) -> Vec<u64> {
        self.events
            .iter()
            .filter_map(|e| match e {
                Event::Call { kind: k, t, .. } if *k == kind => Some(*t),
                _ => None,
            })
            .collect()
    }
    pub fn return_times(&self, kind: &str) -> Vec<u64> {
        self.events
            .iter()
            .filter_map(|e| match e {
                Event::Return { kind: k, t, .. } if *k == kind => Some(*t),
                _ => None,
            })
            .collect()
    }
    pub fn cb_kinds(&self) -> Vec<&'static str> {
        self.cb.iter().map(|(_, p)| p.kind()).collect()
    }
    pub fn returned_ok(&self) -> bool {
        matches!(&self.end, ServerEnd::Returned { ok: true, .. })
    }
    pub fn end_label(&self) -> String {
        match &self.end {
            ServerEnd::Returned { ok: true, .. } => "Ok".into(),
            ServerEnd::Returned { label, .. } => format!("Err({label})"),
            ServerEnd::Panicked { msg } => format!("PANIC({msg})"),
            ServerEnd::Hung => "HUNG".into(),
        }
    }
}

/// counts allocations only while the wrapped future (the connection handler) is being polled
pub struct Metered<F>(pub F);

impl<F: Future> Future for Metered<F> {
    type Output = F::Output;
    fn poll(self: Pin<&mut Self>, cx: &mut Context<'_>) -> Poll<F::Output> {
        // SAFETY: the inner future is never moved out of the pinned wrapper
        let inner = unsafe { self.map_unchecked_mut(|s| &mut s.0) };
        METER_ACTIVE.with(|a| a.set(true));
        let r = inner.poll(cx);
        METER_ACTIVE.with(|a| a.set(false));
        r
    }
}

struct DoneGuard {
    sh: Sh,
    finished: bool,
}

impl Drop for DoneGuard {
    fn drop(&mut self) {
        if !self.finished {
            let mut s = self.sh.lock().unwrap();
            if s.server_end.is_none() {
                let msg = crate::runner::take_last_panic().unwrap_or_else(|| "task dropped".into());
                s.server_end = Some(ServerEnd::Panicked { msg });
            }
            s.notify.notify_one();
        }
    }
}

pub const VIRTUAL_CAP_S: u64 = 10_000;

/// Runs one simulated connection. `client` drives the client side; when it returns, the transport is
/// closed (EOF) if the server has not ended yet, and the server gets `grace_ms` of virtual time to
/// return.
pub fn run_sim<F>(cfg: &ConnCfg, adapters: &AdapterScript, transport: &TransportScript, select_seed: u64, grace_ms: u64, client: F) -> SimOutcome
where
    F: for<'a> FnOnce(&'a mut Client) -> Pin<Box<dyn Future<Output = ()> + 'a>>,
{
    let mut seed_bytes = [0u8; 32];
    seed_bytes[..8].copy_from_slice(&select_seed.to_le_bytes());
    seed_bytes[8..16].copy_from_slice(&select_seed.rotate_left(17).to_le_bytes());
    let mut builder = tokio::runtime::Builder::new_current_thread();
    builder.enable_time().start_paused(true);
    // the select! branch order is part of the schedule (needs --cfg tokio_unstable; the fuzz targets are
    // built without it)
    #[cfg(tokio_unstable)]
    builder.rng_seed(tokio::runtime::RngSeed::from_bytes(&seed_bytes));
    let rt = builder.build().expect("runtime");
    let cfg = cfg.clone();
    let adapters = adapters.clone();
    let transport = transport.clone();
    meter_start();
    let outcome = rt.block_on(async move {
        let notify = Arc::new(Notify::new());
        let sh: Sh = Arc::new(Mutex::new(Shared {
            start: Instant::now(),
            inbound: VecDeque::new(),
            in_total: Vec::new(),
            eof: false,
            eof_reads: 0,
            eof_at: None,
            read_waker: None,
            rscript: transport.rscript.clone(),
            rpos: 0,
            pulled: 0,
            pull_log: Vec::new(),
            out: Vec::new(),
            out_log: Vec::new(),
            wscript: transport.wscript.clone(),
            wpos: 0,
            write_disturbed: false,
            write_blocked_until: None,
            write_waker: None,
            notify: Arc::clone(&notify),
            events: Vec::new(),
            wall_marks: Vec::new(),
            server_end: None,
            shutdown_called: false,
        }));
        let ad = Arc::new(SimAdapters::new(Arc::clone(&sh), adapters));
        let stream = SimStream { sh: Arc::clone(&sh) };
        let mut conn = Connection::new(stream, ad.clone(), ad.clone(), ad.clone(), ad.clone(), ad.clone(), ad.clone())
            .with_client_address(cfg.client_addr.parse().expect("client addr"))
            .with_auth_secret(cfg.secret.clone())
            .with_max_packet_length(cfg.max_len)
            .with_auth_cookie_expiry(cfg.expiry);
        let sh2 = Arc::clone(&sh);
        let server = tokio::spawn(Metered(async move {
            let mut guard = DoneGuard { sh: Arc::clone(&sh2), finished: false };
            let r = conn.listen().await;
            let mut s = sh2.lock().unwrap();
            let t = s.now_ms();
            s.server_end = Some(match &r {
                Ok(()) => ServerEnd::Returned { t, ok: true, label: "Ok".into() },
                Err(e) => ServerEnd::Returned { t, ok: false, label: format!("{e:?}") },
            });
            s.notify.notify_one();
            guard.finished = true;
            drop(s);
            drop(conn);
        }));

        let mut cl = Client {
            sh: Arc::clone(&sh),
            notify: Arc::clone(&notify),
            enc: None,
            dec: None,
            taken: 0,
            plain: Vec::new(),
            parsed: 0,
            cb_phase: Phase::Login,
            got: Vec::new(),
            next_unread: 0,
            stream_broken: None,
            enc_req: None,
        };
        let client_timed_out = tokio::time::timeout(Duration::from_secs(VIRTUAL_CAP_S), client(&mut cl)).await.is_err();
        // end of the client's script: close the transport if the server is still running
        if !cl.server_done() {
            cl.close();
        }
        let joined = tokio::time::timeout(Duration::from_millis(grace_ms.max(1)), server).await;
        match joined {
            Ok(Ok(())) => {}
            Ok(Err(e)) => {
                let mut s = sh.lock().unwrap();
                if !matches!(s.server_end, Some(ServerEnd::Panicked { .. })) {
                    let msg = if e.is_panic() { crate::runner::take_last_panic().unwrap_or_else(|| "panic".into()) } else { "cancelled".into() };
                    s.server_end = Some(ServerEnd::Panicked { msg });
                }
            }
            Err(_) => {
                let mut s = sh.lock().unwrap();
                if s.server_end.is_none() {
                    s.server_end = Some(ServerEnd::Hung);
                }
            }
        }
        cl.pump();
        let s = sh.lock().unwrap();
        SimOutcome {
            wall_marks: s.wall_marks.clone(),
            events: s.events.clone(),
            end: s.server_end.clone().unwrap_or(ServerEnd::Hung),
            out: s.out.clone(),
            in_total: s.in_total.clone(),
            pulled: s.pulled,
            pull_log: s.pull_log.clone(),
            out_log: s.out_log.clone(),
            eof_at: s.eof_at,
            max_alloc: 0,
            write_disturbed: s.write_disturbed,
            cb: cl.got.clone(),
            stream_broken: cl.stream_broken.clone(),
            client_timed_out,
            cb_leftover: cl.plain.len() - cl.parsed,
        }
    });
    let max_alloc = meter_stop();
    drop(rt);
    SimOutcome { max_alloc, ..outcome }
}

// ---------------------------------------------------------------------------------------------
// the standard login driver
// ---------------------------------------------------------------------------------------------

/// how the client answers a cookie request
#[derive(Clone, Debug, Serialize, Deserialize, PartialEq)]
pub enum CookieAnswer {
    /// has_payload = false
    Absent,
    Payload(#[serde(with = "hexbytes")] Vec<u8>),
}

#[derive(Clone, Debug, Serialize, Deserialize, PartialEq)]
pub struct LoginScript {
    pub intent: i32,
    pub protocol: i32,
    pub host: String,
    pub port: u16,
    pub name: String,
    pub uuid: Uuid,
    pub session_cookie: CookieAnswer,
    pub auth_cookie: CookieAnswer,
    pub enc_resp: EncResp,
    #[serde(with = "hexbytes")]
    pub shared_secret: Vec<u8>,
    pub locale: String,
    /// echo keep-alives while waiting for the outcome
    pub echo_keep_alive: bool,
    /// the client lets this much *real* time pass before it answers the authentication cookie request
    #[serde(default)]
    pub real_stall_before_auth_cookie_ms: u32,
}

impl Default for LoginScript {
    fn default() -> Self {
        Self {
            intent: 2,
            protocol: 770,
            host: "play.example.org".into(),
            port: 25565,
            name: "Steve".into(),
            uuid: Uuid::from_u128(0x1234_5678_9abc_def0_1122_3344_5566_7788),
            session_cookie: CookieAnswer::Absent,
            auth_cookie: CookieAnswer::Absent,
            enc_resp: EncResp::Honest,
            shared_secret: (0u8..16).collect(),
            locale: "en_us".into(),
            echo_keep_alive: true,
            real_stall_before_auth_cookie_ms: 0,
        }
    }
}

pub fn client_information(locale: &str) -> Pkt {
    Pkt::ClientInformation {
        locale: locale.to_string(),
        view_distance: 10,
        chat_mode: 0,
        chat_colors: true,
        skin_parts: 0x7f,
        main_hand: 1,
        text_filtering: false,
        server_listing: true,
        particle_status: 0,
    }
}

/// Follows the login → configuration → transfer protocol as a vanilla client would, with the given
/// knobs, until the server ends the exchange (Transfer / Disconnect / connection end).
pub async fn drive_login(c: &mut Client, s: &LoginScript) {
    c.cb_phase = Phase::Login;
    c.send(&Pkt::Handshake { protocol: s.protocol, host: s.host.clone(), port: s.port, next: s.intent });
    c.send(&Pkt::LoginStart { name: s.name.clone(), uuid: s.uuid });
    let mut cookie_requests = 0;
    loop {
        let Some((_, pkt)) = c.next().await else { return };
        match pkt {
            Pkt::LoginCookieRequest { key } => {
                cookie_requests += 1;
                let ans = if key == "passage:session" { &s.session_cookie } else { &s.auth_cookie };
                if key != "passage:session" && s.real_stall_before_auth_cookie_ms > 0 {
                    std::thread::sleep(Duration::from_millis(u64::from(s.real_stall_before_auth_cookie_ms)));
                }
                let payload = match ans {
                    CookieAnswer::Absent => None,
                    CookieAnswer::Payload(p) => Some(p.clone()),
                };
                c.send(&Pkt::LoginCookieResponse { key, payload });
                if cookie_requests > 4 {
                    return;
                }
            }
            Pkt::EncryptionRequest { .. } => {
                let Some(resp) = c.encryption_response(&s.enc_resp, &s.shared_secret) else {
                    return;
                };
                c.send(&resp);
                if let Ok(k) = <[u8; 16]>::try_from(s.shared_secret.as_slice()) {
                    c.enable_encryption(&k);
                } else {
                    // a secret of the wrong size cannot key AES-128; nothing decodable can follow
                    let k = [0u8; 16];
                    c.enable_encryption(&k);
                }
            }
            Pkt::LoginSuccess { .. } => {
                c.send(&Pkt::LoginAck);
                c.send(&client_information(&s.locale));
            }
            Pkt::CfgKeepAliveCb { id } => {
                if s.echo_keep_alive {
                    c.send(&Pkt::CfgKeepAliveSb { id });
                }
            }
            Pkt::CfgTransfer { .. } | Pkt::CfgDisconnect { .. } | Pkt::LoginDisconnect { .. } => {
                // terminal: wait for the server to finish on its own
                while c.next().await.is_some() {}
                return;
            }
            _ => {}
        }
    }
}

/// boxes an async closure body for `run_sim`
#[macro_export]
macro_rules! client_fn {
    (|$c:ident| $body:expr) => {
        |$c: &mut $crate::sim::Client| -> std::pin::Pin<Box<dyn std::future::Future<Output = ()> + '_>> { Box::pin(async move { $body }) }
    };
}
