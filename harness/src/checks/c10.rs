//! C10 — Issued cookies are verifiable, complete, and accepted on the next transfer.
//!
//! Two-connection histories: (1) authenticate freshly and get routed, (2) reconnect with Transfer
//! intent presenting what connection 1 stored. Oracle: independent HMAC-SHA256 over the JSON, the
//! JSON's contents, ordering before the Transfer, session-cookie rules, acceptance on connection 2.

use crate::cookie::{self, Identity};
use crate::gens;
use crate::refcodec::Pkt;
use crate::runner::{CaseInfo, Check, Tier, Verdict};
use crate::sim::{self, AdapterScript, AuthV, ConnCfg, CookieAnswer, LoginScript, ProfileSpec, StrategyV, TransportScript};
use proptest::prelude::*;
use serde::{Deserialize, Serialize};
use serde_json::Value;
use std::net::SocketAddr;

#[derive(Clone, Debug, Serialize, Deserialize, PartialEq)]
pub enum From2 {
    SameAddr,
    SameIpOtherPort(u16),
    OtherIp(String),
}

#[derive(Clone, Debug, Serialize, Deserialize)]
pub struct Case {
    pub cfg: ConnCfg,
    pub intent1: i32,
    pub login: LoginScript,
    pub profile: ProfileSpec,
    /// a session cookie the client already holds when it connects the first time
    pub prior_session: bool,
    /// connection 2 presents no session cookie at all (it has to be given a fresh one when it is routed)
    #[serde(default)]
    pub no_session2: bool,
    pub adapters: AdapterScript,
    pub from2: From2,
    pub seed1: u64,
    pub seed2: u64,
}

pub struct C10;

fn stored(out: &sim::SimOutcome, key: &str) -> Vec<(usize, Vec<u8>)> {
    out.cb
        .iter()
        .enumerate()
        .filter_map(|(i, (_, p))| match p {
            Pkt::CfgStoreCookie { key: k, payload } if k == key => Some((i, payload.clone())),
            _ => None,
        })
        .collect()
}

fn transfer_index(out: &sim::SimOutcome) -> Option<usize> {
    out.cb.iter().position(|(_, p)| matches!(p, Pkt::CfgTransfer { .. }))
}

fn session_fields(payload: &[u8]) -> Option<(uuid::Uuid, String, u64)> {
    let v: Value = serde_json::from_slice(payload).ok()?;
    Some((uuid::Uuid::parse_str(v.get("id")?.as_str()?).ok()?, v.get("server_address")?.as_str()?.to_string(), v.get("server_port")?.as_u64()?))
}

fn decide(case: &Case, info: &mut CaseInfo) -> Verdict {
    let identity = Identity { name: case.profile.name.clone(), uuid: case.profile.id, properties: case.profile.properties.clone() };
    let client1: SocketAddr = case.cfg.client_addr.parse().unwrap();
    let prior_session_payload = serde_json::to_vec(&serde_json::json!({"id": "6f1c1e0e-5a1b-4c7e-9a55-0d4b6a1f2c33", "server_address": "old.example.org", "server_port": 25565})).unwrap();

    // ---- connection 1
    let mut login1 = case.login.clone();
    login1.intent = case.intent1;
    login1.session_cookie = if case.prior_session { CookieAnswer::Payload(prior_session_payload.clone()) } else { CookieAnswer::Absent };
    login1.auth_cookie = CookieAnswer::Absent;
    let now0 = cookie::now_secs();
    let l1 = login1.clone();
    let out1 = sim::run_sim(&case.cfg, &case.adapters, &TransportScript::default(), case.seed1, 1000, crate::client_fn!(|c| sim::drive_login(c, &l1).await));
    let now1 = cookie::now_secs();
    if let sim::ServerEnd::Panicked { msg } = &out1.end {
        return Verdict::Fail { sig: "panic-connection-1".into(), msg: format!("connection 1 panicked: {msg}") };
    }
    let discovered = case.adapters.discovery.clone().unwrap_or_default();
    let chosen = sim::apply_strategy(&case.adapters.strategy, &discovered).ok().flatten();
    let t_idx = transfer_index(&out1);
    let auth_cookies = stored(&out1, cookie::AUTH_KEY);
    let session_cookies = stored(&out1, cookie::SESSION_KEY);
    let routed = t_idx.is_some();
    info.class(if routed { "conn1:routed" } else { "conn1:not_routed" });
    info.class(if case.cfg.secret.is_some() { "secret:configured" } else { "secret:none" });

    // without a secret no authentication cookie is issued — ever
    if case.cfg.secret.is_none() && !auth_cookies.is_empty() {
        return Verdict::Fail { sig: "auth-cookie-without-secret".into(), msg: "an authentication cookie was issued although no secret is configured".into() };
    }
    if !routed {
        // not routed (no target): the property says nothing about cookies here except "without a secret none"
        if chosen.is_some() {
            return Verdict::Fail { sig: "not-routed".into(), msg: format!("a target was chosen but no Transfer was sent: {:?}, end {}", out1.cb_kinds(), out1.end_label()) };
        }
        return Verdict::Pass;
    }
    let t_idx = t_idx.unwrap();
    let chosen = match chosen {
        Some(c) => c,
        None => return Verdict::Fail { sig: "transfer-without-target".into(), msg: "Transfer without a chosen target".into() },
    };
    let mut issued: Option<Vec<u8>> = None;
    if let Some(secret) = case.cfg.secret.as_deref() {
        if auth_cookies.len() != 1 {
            return Verdict::Fail { sig: "auth-cookie-count".into(), msg: format!("{} authentication cookies issued to a freshly authenticated, routed player (secret configured); packets {:?}", auth_cookies.len(), out1.cb_kinds()) };
        }
        let (i, payload) = &auth_cookies[0];
        if *i > t_idx {
            return Verdict::Fail { sig: "auth-cookie-after-transfer".into(), msg: format!("authentication cookie is packet {i}, Transfer is packet {t_idx}") };
        }
        if payload.len() < 32 {
            return Verdict::Fail { sig: "auth-cookie-too-short".into(), msg: format!("cookie payload has {} bytes", payload.len()) };
        }
        let (tag, body) = payload.split_at(32);
        if crate::refcrypto::hmac_sha256(secret, body)[..] != *tag {
            let sig = if crate::refcrypto::hmac_sha256(secret, payload)[..] == *tag { "auth-cookie-tag-covers-wrong-bytes" } else { "auth-cookie-bad-tag" };
            return Verdict::Fail { sig: sig.into(), msg: "the first 32 bytes are not HMAC-SHA256(secret, following JSON) (reference HMAC)".into() };
        }
        let Some(parsed) = cookie::parse_body(body) else {
            return Verdict::Fail { sig: "auth-cookie-unparseable".into(), msg: format!("cookie body is not the documented JSON: {}", String::from_utf8_lossy(body)) };
        };
        if parsed.addr != client1 {
            let sig = if parsed.addr.ip() == client1.ip() { "auth-cookie-wrong-port" } else { "auth-cookie-wrong-address" };
            return Verdict::Fail { sig: sig.into(), msg: format!("cookie records client address {}, the connection's client address is {client1}", parsed.addr) };
        }
        if parsed.identity != identity {
            let sig = if parsed.identity.name == case.login.name && parsed.identity.uuid == case.login.uuid && (identity.name != case.login.name || identity.uuid != case.login.uuid) {
                "auth-cookie-records-claimed-identity"
            } else if parsed.identity.name == identity.name && parsed.identity.uuid == identity.uuid {
                "auth-cookie-properties-mismatch"
            } else {
                "auth-cookie-identity-mismatch"
            };
            return Verdict::Fail { sig: sig.into(), msg: format!("cookie records {:?}, authenticated identity is {:?}", parsed.identity, identity) };
        }
        if parsed.target.as_deref() != Some(chosen.identifier.as_str()) {
            return Verdict::Fail { sig: "auth-cookie-wrong-target".into(), msg: format!("cookie records target {:?}, chosen target is {:?}", parsed.target, chosen.identifier) };
        }
        // "the current time": not before the last backend call returned (the cookie is issued after the
        // target was chosen), not after the connection ended
        let issued_not_before = out1.wall_marks.iter().rev().find(|(k, _)| *k == "select").map(|(_, w)| *w).unwrap_or(now0);
        if parsed.timestamp < issued_not_before || parsed.timestamp > now1 {
            let sig = if parsed.timestamp < issued_not_before && parsed.timestamp >= now0 { "auth-cookie-stale-time" } else { "auth-cookie-wrong-time" };
            return Verdict::Fail { sig: sig.into(), msg: format!("cookie timestamp {} outside [{issued_not_before}, {now1}] (connection started at {now0}; the target was chosen at {issued_not_before})", parsed.timestamp) };
        }
        if issued_not_before > now0 {
            info.class("conn1:took_more_than_a_second");
        }
        issued = Some(payload.clone());
    }
    // session cookie: exactly when the client presented none
    if case.prior_session {
        if !session_cookies.is_empty() {
            return Verdict::Fail { sig: "session-cookie-overwritten".into(), msg: "a session cookie was stored although the client presented one".into() };
        }
    } else {
        if session_cookies.len() != 1 {
            return Verdict::Fail { sig: "session-cookie-count".into(), msg: format!("{} session cookies stored for a routed player that presented none", session_cookies.len()) };
        }
        if session_cookies[0].0 > t_idx {
            return Verdict::Fail { sig: "session-cookie-after-transfer".into(), msg: "session cookie stored after the Transfer".into() };
        }
        match session_fields(&session_cookies[0].1) {
            None => return Verdict::Fail { sig: "session-cookie-unparseable".into(), msg: String::from_utf8_lossy(&session_cookies[0].1).into_owned() },
            Some((id, host, port)) => {
                if host != case.login.host || port != u64::from(case.login.port) {
                    return Verdict::Fail { sig: "session-cookie-wrong-host".into(), msg: format!("session cookie records {host}:{port}, handshake said {}:{}", case.login.host, case.login.port) };
                }
                if id.is_nil() {
                    return Verdict::Fail { sig: "session-cookie-nil-id".into(), msg: "session id is nil".into() };
                }
            }
        }
    }

    // ---- connection 2
    let Some(issued) = issued else {
        return Verdict::Pass;
    };
    let addr2: SocketAddr = match &case.from2 {
        From2::SameAddr => client1,
        From2::SameIpOtherPort(p) => SocketAddr::new(client1.ip(), *p),
        From2::OtherIp(a) => a.parse().unwrap(),
    };
    info.class(match &case.from2 {
        From2::SameAddr => "conn2:same_addr",
        From2::SameIpOtherPort(_) => "conn2:same_ip_other_port",
        From2::OtherIp(_) => "conn2:other_ip",
    });
    let cfg2 = ConnCfg { client_addr: addr2.to_string(), ..case.cfg.clone() };
    let mut login2 = case.login.clone();
    login2.intent = 3;
    login2.auth_cookie = CookieAnswer::Payload(issued.clone());
    login2.session_cookie = if case.no_session2 {
        CookieAnswer::Absent
    } else if case.prior_session {
        CookieAnswer::Payload(prior_session_payload)
    } else {
        CookieAnswer::Payload(session_cookies[0].1.clone())
    };
    // connection 2's authentication service would vouch for somebody else: only the cookie can yield the same identity
    let mut adapters2 = case.adapters.clone();
    adapters2.discovery_real_ms = 0;
    adapters2.auth = AuthV::Ok(ProfileSpec { name: "SomebodyElse".into(), id: uuid::Uuid::from_u128(0xE15E), properties: vec![] });
    let n0 = cookie::now_secs();
    let l2 = login2.clone();
    let out2 = sim::run_sim(&cfg2, &adapters2, &TransportScript::default(), case.seed2, 1000, crate::client_fn!(|c| sim::drive_login(c, &l2).await));
    let n1 = cookie::now_secs();
    let a0 = cookie::accept(3, case.cfg.secret.as_deref(), Some(&issued), addr2.ip(), case.cfg.expiry, n0).is_some();
    let a1 = cookie::accept(3, case.cfg.secret.as_deref(), Some(&issued), addr2.ip(), case.cfg.expiry, n1).is_some();
    if a0 != a1 {
        return Verdict::Inconclusive("expiry boundary crossed while connection 2 ran".into());
    }
    if let sim::ServerEnd::Panicked { msg } = &out2.end {
        let sig = if msg.contains("overflow") { "panic-expiry-overflow" } else { "panic-connection-2" };
        return Verdict::Fail { sig: sig.into(), msg: format!("connection 2 (expiry {}) panicked: {msg}", case.cfg.expiry) };
    }
    let er = out2.cb.iter().find_map(|(_, p)| match p {
        Pkt::EncryptionRequest { should_authenticate, .. } => Some(*should_authenticate),
        _ => None,
    });
    let success = out2.cb.iter().find_map(|(_, p)| match p {
        Pkt::LoginSuccess { name, uuid, .. } => Some((name.clone(), *uuid)),
        _ => None,
    });
    let auth_called = !out2.calls("authenticate").is_empty();
    // session cookie on connection 2: exactly when it presented none (whether or not the auth cookie was accepted)
    let stored2 = stored(&out2, cookie::SESSION_KEY);
    let transfer2 = out2.cb.iter().position(|(_, p)| matches!(p, Pkt::CfgTransfer { .. }));
    if case.no_session2 {
        info.class("conn2:no_session_cookie");
        if let Some(t2) = transfer2 {
            if stored2.len() != 1 {
                return Verdict::Fail { sig: "session-cookie-count".into(), msg: format!("connection 2 presented no session cookie and was routed, but {} session cookies were stored", stored2.len()) };
            }
            if stored2[0].0 > t2 {
                return Verdict::Fail { sig: "session-cookie-after-transfer".into(), msg: "connection 2: session cookie stored after the Transfer".into() };
            }
            match session_fields(&stored2[0].1) {
                None => return Verdict::Fail { sig: "session-cookie-unparseable".into(), msg: String::from_utf8_lossy(&stored2[0].1).into_owned() },
                Some((id, host, port)) => {
                    if host != case.login.host || port != u64::from(case.login.port) {
                        return Verdict::Fail { sig: "session-cookie-wrong-host".into(), msg: format!("connection 2: session cookie records {host}:{port}, handshake said {}:{}", case.login.host, case.login.port) };
                    }
                    let first_id = session_cookies.first().and_then(|(_, p)| session_fields(p)).map(|(i, _, _)| i);
                    if id.is_nil() || Some(id) == first_id {
                        return Verdict::Fail { sig: "session-cookie-id-not-fresh".into(), msg: format!("connection 2 was given session id {id}, connection 1 had {first_id:?}") };
                    }
                }
            }
        }
    } else if !stored2.is_empty() {
        return Verdict::Fail { sig: "session-cookie-overwritten".into(), msg: "connection 2 presented a session cookie but was given a new one".into() };
    }
    if a0 {
        info.class("conn2:cookie_acceptable");
        info.nontrivial = true;
        if er != Some(false) || auth_called {
            let sig = if case.cfg.expiry > (1 << 62) { "issued-cookie-not-accepted:huge-expiry" } else { "issued-cookie-not-accepted" };
            return Verdict::Fail { sig: sig.into(), msg: format!("the cookie issued by connection 1 was presented from {addr2} (expiry {}): should_authenticate = {er:?}, authentication service called = {auth_called}", case.cfg.expiry) };
        }
        match &success {
            Some((n, u)) if *n == identity.name && *u == identity.uuid => {}
            other => return Verdict::Fail { sig: "reconnect-identity-differs".into(), msg: format!("connection 2 logged in as {other:?}, connection 1 authenticated {}/{}", identity.name, identity.uuid) },
        }
        // a cookie-authenticated player is not freshly authenticated: identity in filters must be the cookie's
        for kind in ["filter", "select"] {
            for a in out2.calls(kind) {
                if a["name"].as_str() != Some(identity.name.as_str()) || a["uuid"].as_str() != Some(identity.uuid.to_string().as_str()) {
                    return Verdict::Fail { sig: "reconnect-identity-differs-in-routing".into(), msg: format!("{kind} on connection 2 saw {}/{}", a["name"], a["uuid"]) };
                }
            }
        }
    } else {
        info.class("conn2:cookie_not_acceptable");
        if er == Some(false) {
            let sig = if addr2.ip() != client1.ip() { "cookie-accepted-from-other-ip" } else { "cookie-accepted-although-expired" };
            return Verdict::Fail { sig: sig.into(), msg: format!("cookie issued to {client1} accepted from {addr2} (expiry {})", case.cfg.expiry) };
        }
    }
    Verdict::Pass
}

impl Check for C10 {
    type Case = Case;
    fn id(&self) -> &'static str {
        "C10"
    }
    fn strategy(&self, _tier: Tier) -> BoxedStrategy<Case> {
        let secret = prop_oneof![
            1 => Just(None),
            1 => Just(Some(Vec::new())),
            5 => proptest::collection::vec(any::<u8>(), 1..=64).prop_map(Some),
            // longer than the HMAC block (the key is hashed first)
            1 => proptest::collection::vec(any::<u8>(), 65..=200).prop_map(Some),
        ];
        let expiry = proptest::sample::select(vec![0u64, 1, 60, 21600, 1 << 40, u64::MAX, u64::MAX - 1_000_000]);
        let from2 = prop_oneof![
            3 => Just(From2::SameAddr),
            3 => any::<u16>().prop_map(From2::SameIpOtherPort),
            2 => gens::client_addr().prop_map(From2::OtherIp),
        ];
        let profile = gens::identity().prop_map(|i| ProfileSpec { name: i.name, id: i.uuid, properties: i.properties });
        let targets = prop_oneof![8 => gens::targets(5), 1 => Just(vec![])];
        (
            (gens::client_addr(), secret, expiry, prop_oneof![Just(2i32), Just(3i32)]),
            (gens::name(), gens::uuid(), gens::host(), gens::port(), profile, any::<bool>()),
            (targets, any::<u16>(), from2, any::<u64>(), any::<u64>(), prop::bool::weighted(0.025)),
        )
            .prop_map(|((client_addr, secret, expiry, intent1), (name, uuid, host, port, profile, prior_session), (targets, pick, from2, seed1, seed2, slow))| {
                let from2 = match from2 {
                    // an "other IP" that happens to equal the first one is the same-IP class
                    From2::OtherIp(a) if a.parse::<SocketAddr>().unwrap().ip() == client_addr.parse::<SocketAddr>().unwrap().ip() || gens::same_canonical_ip(&a, &client_addr) => From2::SameAddr,
                    o => o,
                };
                Case {
                    cfg: ConnCfg { secret, expiry, client_addr, ..Default::default() },
                    intent1,
                    login: LoginScript { name, uuid, host, port, ..Default::default() },
                    profile: profile.clone(),
                    prior_session,
                    no_session2: seed2 % 3 == 0,
                    adapters: AdapterScript { auth: AuthV::Ok(profile), discovery: Some(targets), strategy: StrategyV::Pick(pick), discovery_real_ms: if slow { 1100 } else { 0 }, ..Default::default() },
                    from2,
                    seed1,
                    seed2,
                }
            })
            .boxed()
    }
    fn max_shrink_iters(&self) -> u32 {
        // a few cases cost a second of real time (slow first connection)
        128
    }
    fn cases(&self, tier: Tier) -> u64 {
        tier.pick(4_000, 100_000)
    }
    fn run(&self, case: &Case) -> (Verdict, CaseInfo) {
        let mut info = CaseInfo::default();
        info.class(format!("expiry:{}", if case.cfg.expiry >= 1 << 40 { "huge".to_string() } else { case.cfg.expiry.to_string() }));
        let v = decide(case, &mut info);
        (v, info)
    }
    fn rule(&self) -> String {
        "two-connection histories: (1) Login/Transfer intent without a cookie, fresh authentication with a generated profile (0-3 properties, Unicode), routed to a generated target, client address IPv4/IPv6, secret none/empty/1-64 bytes, prior session cookie or not; (2) Transfer intent presenting what was stored (in a third of the cases without the session cookie: a fresh one must then be issued), from the same address / same IP other port / another IP, expiry in {0,1,60,21600,2^40,u64::MAX-10^6,u64::MAX}; non-trivial = secret configured, both connections complete and the reference predicate accepts the issued cookie on connection 2; distinct = distinct case".into()
    }
    fn assumptions(&self) -> Vec<String> {
        vec![
            "timestamps are compared with the wall-clock window read around connection 1; acceptance on connection 2 is decided by the reference predicate at the seconds before and after it (a difference is inconclusive)".into(),
            "cookies stay far below 5 KiB".into(),
        ]
    }
    fn sample(&self, case: &Case) -> Value {
        serde_json::json!({"client": case.cfg.client_addr, "secret_len": case.cfg.secret.as_ref().map(|s| s.len()), "expiry": case.cfg.expiry, "intent1": case.intent1, "profile": case.profile, "prior_session": case.prior_session, "conn2_presents_session_cookie": !case.no_session2, "targets": case.adapters.discovery.as_ref().map(|d| d.len()), "from2": case.from2})
    }
}
