//! C18 — Built-in filters and strategies never pick a disqualified target.
//!
//! Configuration *values* (JSON) are deserialised with the crate's own `Deserialize` impls and built
//! through `DynFilterAdapters::from_config` / `DynStrategyAdapter::from_config`; target lists, players
//! and host names are generated from pools that hit and miss. Oracle: an independent reference
//! evaluator of eligibility; `any` = first eligible target; `player_fill` = validity predicate.

use crate::checks::c09::block_on;
use crate::runner::{CaseInfo, Check, Tier, Verdict};
use crate::sim::TargetSpec;
use passage::adapter::filter::DynFilterAdapters;
use passage::adapter::strategy::DynStrategyAdapter;
use passage::config;
use passage_adapters::filter::FilterAdapter;
use passage_adapters::strategy::StrategyAdapter;
use proptest::prelude::*;
use regex::Regex;
use serde::{Deserialize, Serialize};
use serde_json::{Value, json};
use std::collections::BTreeMap;
use uuid::Uuid;

#[derive(Clone, Debug, Serialize, Deserialize, PartialEq)]
pub enum Op {
    Equals(String),
    NotEquals(String),
    Exists,
    NotExists,
    In(Vec<String>),
    NotIn(Vec<String>),
}

#[derive(Clone, Debug, Serialize, Deserialize, PartialEq)]
pub struct Rule {
    pub key: String,
    pub op: Op,
}

#[derive(Clone, Debug, Serialize, Deserialize, PartialEq)]
pub struct PlayerList {
    pub usernames: Option<Vec<String>>,
    pub username: Option<String>,
    pub ids: Option<Vec<Uuid>>,
}

#[derive(Clone, Debug, Serialize, Deserialize, PartialEq)]
pub enum Kind {
    Meta(Vec<Rule>),
    Allow(PlayerList),
    Block(PlayerList),
}

#[derive(Clone, Debug, Serialize, Deserialize, PartialEq)]
pub struct Entry {
    pub hostname: Option<String>,
    pub kind: Kind,
    /// spelling variants (aliases) used when the configuration value is written
    pub alias_bits: u8,
}

#[derive(Clone, Debug, Serialize, Deserialize, PartialEq)]
pub enum Strat {
    Any,
    PlayerFill { field: String, max_players: u32 },
}

#[derive(Clone, Debug, Serialize, Deserialize)]
pub struct Case {
    pub chain: Vec<Entry>,
    pub strategy: Strat,
    pub targets: Vec<TargetSpec>,
    pub player_name: String,
    pub player_id: Uuid,
    pub host: String,
}

pub struct C18;

fn op_json(op: &Op, alias: bool) -> Value {
    match op {
        Op::Equals(v) => json!({"op": "equals", "value": v}),
        Op::NotEquals(v) => json!({"op": if alias { "notequals" } else { "not_equals" }, "value": v}),
        Op::Exists => json!({"op": "exists"}),
        Op::NotExists => json!({"op": if alias { "notexists" } else { "not_exists" }}),
        Op::In(v) => json!({"op": "in", "value": v}),
        Op::NotIn(v) => json!({"op": if alias { "notin" } else { "not_in" }, "value": v}),
    }
}

fn list_json(l: &PlayerList) -> Value {
    let mut o = serde_json::Map::new();
    if let Some(u) = &l.usernames {
        o.insert("usernames".into(), json!(u));
    }
    if let Some(u) = &l.username {
        o.insert("username".into(), json!(u));
    }
    if let Some(i) = &l.ids {
        o.insert("ids".into(), json!(i.iter().map(|x| x.to_string()).collect::<Vec<_>>()));
    }
    Value::Object(o)
}

fn entry_json(e: &Entry) -> Value {
    let a = e.alias_bits;
    let mut o = serde_json::Map::new();
    if let Some(h) = &e.hostname {
        o.insert("hostname".into(), json!(h));
    }
    match &e.kind {
        Kind::Meta(rules) => {
            let rules: Vec<Value> = rules
                .iter()
                .enumerate()
                .map(|(i, r)| {
                    let mut v = op_json(&r.op, (a >> (i % 4)) & 1 == 1);
                    v[if (a >> 4) & 1 == 1 { "field" } else { "key" }] = json!(r.key);
                    v
                })
                .collect();
            o.insert(if (a >> 5) & 1 == 1 { "fixed" } else { "meta" }.into(), json!({"rules": rules}));
        }
        Kind::Allow(l) => {
            o.insert(if (a >> 5) & 1 == 1 { "playerallow" } else { "player_allow" }.into(), list_json(l));
        }
        Kind::Block(l) => {
            o.insert(if (a >> 5) & 1 == 1 { "playerblock" } else { "player_block" }.into(), list_json(l));
        }
    }
    Value::Object(o)
}

fn strategy_json(s: &Strat, alias: bool) -> Value {
    match s {
        Strat::Any => json!(if alias { "fixed" } else { "any" }),
        Strat::PlayerFill { field, max_players } => json!({ if alias { "playerfill" } else { "player_fill" }: {"field": field, "max_players": max_players} }),
    }
}

// ---- reference evaluator ----

fn rule_ok(r: &Rule, meta: &BTreeMap<String, String>) -> bool {
    let v = meta.get(&r.key);
    match &r.op {
        Op::Equals(x) => v == Some(x),
        Op::NotEquals(x) => v != Some(x),
        Op::Exists => v.is_some(),
        Op::NotExists => v.is_none(),
        Op::In(xs) => v.is_some_and(|v| xs.contains(v)),
        Op::NotIn(xs) => !v.is_some_and(|v| xs.contains(v)),
    }
}

fn on_list(l: &PlayerList, name: &str, id: &Uuid) -> bool {
    l.usernames.as_ref().is_some_and(|u| u.iter().any(|x| x == name)) || l.username.as_ref().is_some_and(|p| Regex::new(p).unwrap().is_match(name)) || l.ids.as_ref().is_some_and(|i| i.contains(id))
}

fn eligible(case: &Case) -> Vec<TargetSpec> {
    let applicable: Vec<&Entry> = case.chain.iter().filter(|e| e.hostname.as_ref().is_none_or(|h| Regex::new(h).unwrap().is_match(&case.host))).collect();
    case.targets
        .iter()
        .filter(|t| {
            applicable.iter().all(|e| match &e.kind {
                Kind::Meta(rules) => rules.iter().all(|r| rule_ok(r, &t.meta)),
                Kind::Allow(l) => on_list(l, &case.player_name, &case.player_id),
                Kind::Block(l) => !on_list(l, &case.player_name, &case.player_id),
            })
        })
        .cloned()
        .collect()
}

/// a parseable player count: non-empty, ASCII digits only, fits u32
fn count_of(t: &TargetSpec, field: &str) -> Option<u32> {
    let s = t.meta.get(field)?;
    if s.is_empty() || !s.bytes().all(|b| b.is_ascii_digit()) {
        return None;
    }
    s.parse::<u32>().ok()
}

fn decide(case: &Case, info: &mut CaseInfo) -> Verdict {
    // build the real adapters from configuration values
    let chain_v: Vec<Value> = case.chain.iter().map(entry_json).collect();
    let cfgs: Vec<config::OptionFilterAdapter> = match serde_json::from_value(Value::Array(chain_v.clone())) {
        Ok(c) => c,
        Err(e) => return Verdict::Fail { sig: "config-rejected".into(), msg: format!("filter configuration {} does not deserialise: {e}", Value::Array(chain_v)) },
    };
    let filters = match block_on(DynFilterAdapters::from_config(cfgs)) {
        Ok(f) => f,
        Err(e) => return Verdict::Fail { sig: "config-rejected".into(), msg: format!("filter chain cannot be built: {e}") },
    };
    let sv = strategy_json(&case.strategy, case.chain.len() % 2 == 1);
    let scfg: config::StrategyAdapter = match serde_json::from_value(sv.clone()) {
        Ok(c) => c,
        Err(e) => return Verdict::Fail { sig: "config-rejected".into(), msg: format!("strategy configuration {sv} does not deserialise: {e}") },
    };
    let strategy = match block_on(DynStrategyAdapter::from_config(scfg)) {
        Ok(s) => s,
        Err(e) => return Verdict::Fail { sig: "config-rejected".into(), msg: format!("strategy cannot be built: {e}") },
    };
    let client: std::net::SocketAddr = "198.51.100.1:40000".parse().unwrap();
    let targets: Vec<passage_adapters::Target> = case.targets.iter().map(TargetSpec::to_target).collect();
    let got = match block_on(filters.filter(&client, (&case.host, 25565), 770, (&case.player_name, &case.player_id), targets)) {
        Ok(v) => v,
        Err(e) => return Verdict::Fail { sig: "filter-error".into(), msg: format!("{e}") },
    };
    let got_specs: Vec<TargetSpec> = got.iter().map(TargetSpec::from_target).collect();
    let want = eligible(case);
    let host_scoped = case.chain.iter().filter(|e| e.hostname.is_some()).count();
    if !want.is_empty() && want.len() < case.targets.len() {
        info.class("filter:some_kept_some_dropped");
    } else if want.is_empty() && !case.targets.is_empty() {
        info.class("filter:all_dropped");
    } else if !case.targets.is_empty() {
        info.class("filter:all_kept");
    }
    if host_scoped > 0 {
        info.class("chain:host_scoped");
    }
    info.nontrivial = case.chain.len() >= 2 && host_scoped >= 1 && case.targets.len() >= 3 && !want.is_empty() && want.len() < case.targets.len();
    if got_specs != want {
        let extra: Vec<&TargetSpec> = got_specs.iter().filter(|t| !want.contains(t)).collect();
        let sig = if !extra.is_empty() { "disqualified-target-kept" } else if got_specs.len() < want.len() { "qualified-target-dropped" } else { "filter-order-changed" };
        return Verdict::Fail { sig: sig.into(), msg: format!("host {:?}, player {:?}/{}: filters returned {:?}, eligible are {:?}; chain {}", case.host, case.player_name, case.player_id, got_specs.iter().map(|t| &t.identifier).collect::<Vec<_>>(), want.iter().map(|t| &t.identifier).collect::<Vec<_>>(), Value::Array(case.chain.iter().map(entry_json).collect())) };
    }
    let chosen = match block_on(strategy.select(&client, (&case.host, 25565), 770, (&case.player_name, &case.player_id), got)) {
        Ok(c) => c.map(|t| TargetSpec::from_target(&t)),
        Err(e) => return Verdict::Fail { sig: "strategy-error".into(), msg: format!("{e}") },
    };
    match &case.strategy {
        Strat::Any => {
            info.class("strategy:any");
            if chosen.as_ref() != want.first() {
                return Verdict::Fail { sig: "any-not-first-eligible".into(), msg: format!("chosen {:?}, first eligible {:?}", chosen.as_ref().map(|t| &t.identifier), want.first().map(|t| &t.identifier)) };
            }
        }
        Strat::PlayerFill { field, max_players } => {
            info.class("strategy:player_fill");
            // two readings of an unparseable count: empty server (0) or full server (max)
            let valid_under = |unknown: u32| -> bool {
                let count = |t: &TargetSpec| count_of(t, field).unwrap_or(unknown);
                let below: Vec<&TargetSpec> = want.iter().filter(|t| count(t) < *max_players).collect();
                match &chosen {
                    None => below.is_empty(),
                    Some(c) => want.contains(c) && count(c) < *max_players && !below.iter().any(|t| count(t) > count(c)),
                }
            };
            if want.iter().any(|t| count_of(t, field).is_none()) {
                info.class("player_fill:unparseable_count_present");
            }
            if !(valid_under(0) || valid_under(*max_players)) {
                let sig = match &chosen {
                    None => "refused-although-target-qualifies",
                    Some(c) if !want.contains(c) => "chosen-target-not-eligible",
                    Some(c) if count_of(c, field).is_some_and(|n| n >= *max_players) => "chosen-target-at-capacity",
                    Some(_) => "fuller-eligible-target-exists",
                };
                return Verdict::Fail { sig: sig.into(), msg: format!("player_fill(field {field:?}, max {max_players}): chosen {:?}; eligible with counts {:?}", chosen.as_ref().map(|t| (&t.identifier, t.meta.get(field))), want.iter().map(|t| (&t.identifier, t.meta.get(field))).collect::<Vec<_>>()) };
            }
        }
    }
    Verdict::Pass
}

const KEYS: [&str; 4] = ["region", "mode", "players", "tier"];
const VALUES: [&str; 4] = ["eu", "us", "lobby", "3"];
const NAMES: [&str; 6] = ["Alice", "Bob", "alice", "Mallory", "Notch", "Ünï"];
const HOSTS: [&str; 6] = ["play.example.org", "lobby.example.org", "example.com", "PLAY.example.org", "", "mc.internal"];
const PATTERNS: [&str; 8] = ["^play\\.", "example", "\\.org$", "^(lobby|mc)\\.", "[A-Z]+", "", "^$", "ali"];

fn ids_pool() -> Vec<Uuid> {
    (1u128..=4).map(Uuid::from_u128).collect()
}

fn player_list() -> BoxedStrategy<PlayerList> {
    (
        proptest::option::of(proptest::collection::vec(proptest::sample::select(NAMES.to_vec()).prop_map(String::from), 0..3)),
        proptest::option::of(proptest::sample::select(PATTERNS.to_vec()).prop_map(String::from)),
        proptest::option::of(proptest::collection::vec(proptest::sample::select(ids_pool()), 0..3)),
    )
        .prop_map(|(usernames, username, ids)| PlayerList { usernames, username, ids })
        .boxed()
}

impl Check for C18 {
    type Case = Case;
    fn id(&self) -> &'static str {
        "C18"
    }
    fn strategy(&self, _tier: Tier) -> BoxedStrategy<Case> {
        let key = proptest::sample::select(KEYS.to_vec()).prop_map(String::from);
        let val = proptest::sample::select(VALUES.to_vec()).prop_map(String::from);
        let op = prop_oneof![
            val.clone().prop_map(Op::Equals),
            val.clone().prop_map(Op::NotEquals),
            Just(Op::Exists),
            Just(Op::NotExists),
            proptest::collection::vec(val.clone(), 0..3).prop_map(Op::In),
            proptest::collection::vec(val.clone(), 0..3).prop_map(Op::NotIn),
        ];
        let rule = (key.clone(), op).prop_map(|(key, op)| Rule { key, op });
        let kind = prop_oneof![
            5 => proptest::collection::vec(rule.clone(), 0..=2).prop_map(Kind::Meta),
            1 => proptest::collection::vec(rule, 2..=4).prop_map(Kind::Meta),
            1 => player_list().prop_map(Kind::Allow),
            2 => player_list().prop_map(Kind::Block),
        ];
        let entry = (proptest::option::weighted(0.5, proptest::sample::select(PATTERNS.to_vec()).prop_map(String::from)), kind, any::<u8>()).prop_map(|(hostname, kind, alias_bits)| Entry { hostname, kind, alias_bits });
        let count = prop_oneof![
            5 => (0u32..12).prop_map(|n| n.to_string()),
            1 => proptest::sample::select(vec!["", "abc", "-1", "5.5", "99999999999", " 5", "007"]).prop_map(String::from),
            // legal u32 counts beyond i32
            1 => proptest::sample::select(vec!["2147483647", "2147483648", "3000000000", "4294967295", "4294967294"]).prop_map(String::from),
        ];
        let meta = (proptest::collection::btree_map(key.clone(), val, 1..5), proptest::option::weighted(0.8, count)).prop_map(|(mut m, c)| {
            if let Some(c) = c {
                m.insert("players".to_string(), c);
            }
            m
        });
        let target = (0u8..250, meta).prop_map(|(n, meta)| TargetSpec { identifier: format!("srv-{n}"), addr: format!("10.0.0.{n}:25565"), meta });
        let strat = prop_oneof![
            2 => Just(Strat::Any),
            3 => (prop_oneof![4 => Just("players".to_string()), 1 => Just("tier".to_string()), 1 => Just("missing".to_string())], prop_oneof![6 => 0u32..=10, 1 => proptest::sample::select(vec![u32::MAX, u32::MAX - 1, 1u32 << 31, (1u32 << 31) - 1, 3_000_000_000])]).prop_map(|(field, max_players)| Strat::PlayerFill { field, max_players }),
        ];
        (
            proptest::collection::vec(entry, 0..=5),
            strat,
            proptest::collection::vec(target, 0..=8),
            proptest::sample::select(NAMES.to_vec()),
            proptest::sample::select((1u128..=6).map(Uuid::from_u128).collect::<Vec<_>>()),
            proptest::sample::select(HOSTS.to_vec()),
            // the metadata key that carries the player count: keys are case-sensitive and used as configured
            prop_oneof![3 => Just("players"), 1 => Just("Players"), 1 => Just("playerCount"), 1 => Just("PLAYERS"), 1 => Just("players online")],
            prop::bool::weighted(0.85),
        )
            .prop_map(|(chain, mut strategy, mut targets, name, player_id, host, count_key, field_follows)| {
                if count_key != "players" {
                    for t in targets.iter_mut() {
                        if let Some(c) = t.meta.remove("players") {
                            t.meta.insert(count_key.to_string(), c);
                        }
                    }
                    if let Strat::PlayerFill { field, .. } = &mut strategy {
                        // mostly the configured field is that key; sometimes it differs from it only in case
                        if field == "players" && field_follows {
                            *field = count_key.to_string();
                        }
                    }
                }
                Case { chain, strategy, targets, player_name: name.to_string(), player_id, host: host.to_string() }
            })
            .boxed()
    }
    fn cases(&self, tier: Tier) -> u64 {
        tier.pick(100_000, 20_000_000)
    }
    fn run(&self, case: &Case) -> (Verdict, CaseInfo) {
        let mut info = CaseInfo::default();
        let v = decide(case, &mut info);
        (v, info)
    }
    fn rule(&self) -> String {
        "filter chains of 0-5 entries (optionally host-scoped by a pattern from a small grammar; meta filter with 0-4 rules over a 4-key x 4-value pool and all six operators, allow list, block list by names / pattern / UUIDs, each present, absent or empty), written as configuration values with random alias spellings and deserialised by the crate; strategy any / player_fill(field, max 0-10) with the count under a lower-case, mixed-case or blank-containing metadata key; 0-8 targets with metadata missing, non-numeric, duplicate counts; players and host names from pools that hit and miss. non-trivial = at least two chain entries, at least one host-scoped, at least three targets, and the chain keeps some targets and drops others; distinct = distinct case".into()
    }
    fn assumptions(&self) -> Vec<String> {
        vec![
            "regex semantics are the regex crate's in implementation and reference; patterns come from a list that always compiles".into(),
            "how an unparseable player count ranks is not stated: a choice is accepted if it is valid when such a server counts as empty or when it counts as full".into(),
            "an allow list admits a player iff the name is listed, the pattern matches, or the UUID is listed (an allow list with nothing configured admits nobody)".into(),
        ]
    }
    fn sample(&self, case: &Case) -> Value {
        json!({"chain": case.chain.iter().map(entry_json).collect::<Vec<_>>(), "strategy": strategy_json(&case.strategy, false), "targets": case.targets.iter().map(|t| json!({"id": t.identifier, "meta": t.meta})).collect::<Vec<_>>(), "player": [case.player_name, case.player_id], "host": case.host})
    }
}
