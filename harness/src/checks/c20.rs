//! C20 — Agones discovery offers exactly the currently ready game servers.
//!
//! Stateful: per namespace a generated history of list contents and ADDED / MODIFIED / DELETED /
//! BOOKMARK watch events, objects that cannot be converted, dropped watch connections and 410-Gone
//! re-lists is served by a mock Kubernetes API to the real `AgonesDiscoveryAdapter`. After every step a
//! sentinel GameServer is emitted and awaited (events are applied in order), then `discover()` must
//! equal the model: convertible objects whose most recently observed state is Ready or Allocated.

use crate::mocks::{self, k8s::K8sMock};
use crate::runner::{CaseInfo, Check, Tier, Verdict};
use passage_adapters::discovery::DiscoveryAdapter;
use passage_adapters_agones::{AgonesDiscoveryAdapter, watcher_config};
use proptest::prelude::*;
use serde::{Deserialize, Serialize};
use serde_json::{Value, json};
use std::collections::BTreeMap;
use std::sync::OnceLock;
use std::sync::atomic::{AtomicU64, Ordering};
use std::time::{Duration, Instant};

#[derive(Clone, Debug, Serialize, Deserialize, PartialEq)]
pub enum Shape {
    Ok,
    NoStatus,
    NoPorts,
    BadAddress,
    /// a status object without the optional keys (`ports`, `counters`, `lists`) at all
    PortsKeyMissing,
}

#[derive(Clone, Debug, Serialize, Deserialize, PartialEq)]
pub struct Gs {
    pub name: u8,
    pub state: String,
    pub shape: Shape,
    pub ip: String,
    pub ports: Vec<u16>,
    pub counters: BTreeMap<String, Option<u32>>,
    pub lists: BTreeMap<String, Vec<String>>,
    pub labels: BTreeMap<String, String>,
    pub annotations: BTreeMap<String, String>,
}

#[derive(Clone, Debug, Serialize, Deserialize, PartialEq)]
pub enum Step {
    /// ADDED or MODIFIED, depending on whether the name exists
    Apply(Gs),
    Delete(u8),
    Bookmark,
    DropWatch,
    /// the watch answers 410 Gone; the re-list returns these objects
    Gone(Vec<Gs>),
    /// like `Gone`, but the re-list is paged and its second page fails once with 410 (continue token
    /// expired), so the list starts over
    GoneMidList(Vec<Gs>),
}

#[derive(Clone, Debug, Serialize, Deserialize)]
pub struct Case {
    pub initial: Vec<Gs>,
    pub steps: Vec<Step>,
    /// page size of list requests (production uses 500)
    #[serde(default = "default_page")]
    pub page_size: u32,
}

fn default_page() -> u32 {
    500
}

pub struct C20;

const NAMES: [&str; 6] = ["gs-alpha", "gs-bravo", "gs-charlie", "gs-delta", "gs-echo", "gs-foxtrot"];
const STATES: [&str; 6] = ["Scheduled", "Ready", "Allocated", "Reserved", "Shutdown", "Unhealthy"];

fn mock() -> &'static K8sMock {
    static M: OnceLock<K8sMock> = OnceLock::new();
    M.get_or_init(|| {
        let m = mocks::rt().block_on(K8sMock::start());
        let path = m.write_kubeconfig();
        unsafe { std::env::set_var("KUBECONFIG", &path) };
        m
    })
}

static NS_COUNTER: AtomicU64 = AtomicU64::new(0);

fn gs_name(n: u8) -> String {
    NAMES[n as usize % NAMES.len()].to_string()
}

fn object(ns: &str, name: &str, g: &Gs, rv: u64) -> Value {
    let mut o = json!({
        "apiVersion": "agones.dev/v1",
        "kind": "GameServer",
        "metadata": {"name": name, "namespace": ns, "uid": format!("uid-{ns}-{name}"), "resourceVersion": rv.to_string(), "labels": g.labels, "annotations": g.annotations},
        "spec": {"container": "minecraft"},
    });
    if g.shape != Shape::NoStatus {
        let ports: Vec<Value> = if g.shape == Shape::NoPorts { vec![] } else { g.ports.iter().enumerate().map(|(i, p)| json!({"name": format!("port{i}"), "port": p})).collect() };
        o["status"] = json!({
            "address": if g.shape == Shape::BadAddress { "not-an-ip.example".to_string() } else { g.ip.clone() },
            "ports": ports,
            "state": g.state,
            "counters": g.counters.iter().map(|(k, v)| (k.clone(), json!({"count": v, "capacity": 100}))).collect::<serde_json::Map<_, _>>(),
            "lists": g.lists.iter().map(|(k, v)| (k.clone(), json!({"capacity": 10, "values": v}))).collect::<serde_json::Map<_, _>>(),
        });
        if g.shape == Shape::PortsKeyMissing {
            let st = o["status"].as_object_mut().unwrap();
            st.remove("ports");
            st.remove("counters");
            st.remove("lists");
        }
    }
    o
}

/// (address, metadata) a convertible, offered object must be listed with
fn expected(g: &Gs) -> Option<(String, BTreeMap<String, String>)> {
    if g.shape != Shape::Ok || g.ports.is_empty() || !(g.state == "Ready" || g.state == "Allocated") {
        return None;
    }
    let ip: std::net::IpAddr = g.ip.parse().ok()?;
    let addr = std::net::SocketAddr::new(ip, g.ports[0]).to_string();
    let mut meta = BTreeMap::new();
    meta.insert("state".to_string(), g.state.clone());
    for (k, v) in &g.counters {
        meta.insert(k.clone(), v.unwrap_or(0).to_string());
    }
    for (k, v) in &g.lists {
        meta.insert(k.clone(), v.join(","));
    }
    for (k, v) in g.labels.iter().chain(g.annotations.iter()) {
        meta.insert(k.clone(), v.clone());
    }
    Some((addr, meta))
}

#[derive(Clone, Debug, PartialEq)]
enum Fate {
    Applied,
    Deleted,
    AbsentFromRelist,
}

fn decide(case: &Case, info: &mut CaseInfo) -> Verdict {
    let m = mock();
    let ns = format!("verif-{}-{}", std::process::id(), NS_COUNTER.fetch_add(1, Ordering::Relaxed));
    // model: name -> last observed object, plus what last happened to each name
    let mut model: BTreeMap<String, Gs> = BTreeMap::new();
    let mut fate: BTreeMap<String, Fate> = BTreeMap::new();
    for g in &case.initial {
        model.insert(gs_name(g.name), g.clone());
        fate.insert(gs_name(g.name), Fate::Applied);
    }
    m.with_ns(&ns, |n| {
        n.resource_version = 10;
        for (name, g) in &model {
            n.objects.insert(name.clone(), object(&ns, name, g, 10));
        }
    });
    let cfg = watcher_config::Config {
        bookmarks: true,
        label_selector: None,
        field_selector: None,
        timeout: None,
        list_semantic: watcher_config::ListSemantic::default(),
        page_size: Some(case.page_size.max(1)),
        initial_list_strategy: watcher_config::InitialListStrategy::default(),
    };
    let adapter = match mocks::rt().block_on(AgonesDiscoveryAdapter::new(Some(ns.clone()), cfg)) {
        Ok(a) => a,
        Err(e) => return Verdict::Inconclusive(format!("adapter could not be created: {e}")),
    };
    let mut sentinel = 0u64;
    let sentinel_gs = Gs { name: 0, state: "Ready".into(), shape: Shape::Ok, ip: "127.9.9.9".into(), ports: vec![9], counters: BTreeMap::new(), lists: BTreeMap::new(), labels: BTreeMap::new(), annotations: BTreeMap::new() };
    let mut had_delete = false;
    let mut had_relist = false;
    let mut had_unready = false;
    let mut had_unconvertible = false;
    let mut had_aborted_list = false;

    // one barrier + comparison; returns a violation if any
    let mut check_after = |step_no: usize, what: &str, model: &BTreeMap<String, Gs>, fate: &BTreeMap<String, Fate>| -> Option<Verdict> {
        sentinel += 1;
        let sname = format!("sentinel-{sentinel}");
        m.with_ns(&ns, |n| {
            n.resource_version += 1;
            let rv = n.resource_version;
            let o = object(&ns, &sname, &sentinel_gs, rv);
            n.objects.insert(sname.clone(), o.clone());
            n.log.push((rv, json!({"type": "ADDED", "object": o}).to_string()));
            n.notify.notify_waiters();
        });
        let t0 = Instant::now();
        let snapshot = loop {
            let snap = mocks::rt().block_on(adapter.discover()).unwrap_or_default();
            if snap.iter().any(|t| t.identifier == sname) {
                break snap;
            }
            if t0.elapsed() > Duration::from_secs(30) {
                return Some(Verdict::Inconclusive(format!("sentinel {sname} did not show up within 30 s after step {step_no} ({what})")));
            }
            std::thread::sleep(Duration::from_millis(2));
        };
        let mut got: BTreeMap<String, (String, BTreeMap<String, String>)> = BTreeMap::new();
        for t in snapshot.iter().filter(|t| !t.identifier.starts_with("sentinel-")) {
            let meta: BTreeMap<String, String> = t.meta.iter().map(|(k, v)| (k.clone(), v.clone())).collect();
            if got.insert(t.identifier.clone(), (t.address.to_string(), meta)).is_some() {
                return Some(Verdict::Fail { sig: "duplicate-target".into(), msg: format!("after step {step_no} ({what}): {} is offered twice", t.identifier) });
            }
        }
        let want: BTreeMap<String, (String, BTreeMap<String, String>)> = model.iter().filter_map(|(n, g)| expected(g).map(|e| (n.clone(), e))).collect();
        for (name, g) in &got {
            match want.get(name) {
                None => {
                    let sig = match (fate.get(name), model.get(name)) {
                        (Some(Fate::Deleted), _) => "deleted-server-still-offered",
                        (Some(Fate::AbsentFromRelist), _) => "server-absent-from-relist-still-offered",
                        (_, Some(o)) if o.shape != Shape::Ok => "unconvertible-update-still-offered",
                        (_, Some(o)) if o.labels.contains_key("state") || o.annotations.contains_key("state") || o.counters.contains_key("state") || o.lists.contains_key("state") => "not-ready-server-offered-because-of-metadata-named-state",
                        (_, Some(_)) => "not-ready-server-still-offered",
                        _ => "unknown-server-offered",
                    };
                    return Some(Verdict::Fail { sig: sig.into(), msg: format!("after step {step_no} ({what}): {name} is offered as {g:?}; model says {:?} (fate {:?})", model.get(name).map(|o| (&o.state, &o.shape)), fate.get(name)) });
                }
                Some(w) if {
                    let clash = model.get(name).is_some_and(|o| o.labels.contains_key("state") || o.annotations.contains_key("state") || o.counters.contains_key("state") || o.lists.contains_key("state"));
                    if clash {
                        // which value the key "state" carries is not stated when a label etc. has the same name
                        let strip = |m: &BTreeMap<String, String>| m.iter().filter(|(k, _)| *k != "state").map(|(k, v)| (k.clone(), v.clone())).collect::<BTreeMap<_, _>>();
                        w.0 != g.0 || strip(&w.1) != strip(&g.1)
                    } else {
                        w != g
                    }
                } => {
                    return Some(Verdict::Fail { sig: "stale-address-or-metadata".into(), msg: format!("after step {step_no} ({what}): {name} is offered as {g:?}, its current object says {w:?}") });
                }
                _ => {}
            }
        }
        for name in want.keys() {
            if !got.contains_key(name) {
                let clash = model.get(name).is_some_and(|o| o.labels.contains_key("state") || o.annotations.contains_key("state") || o.counters.contains_key("state") || o.lists.contains_key("state"));
                return Some(Verdict::Fail { sig: if clash { "ready-server-hidden-by-metadata-named-state".into() } else { "ready-server-missing".into() }, msg: format!("after step {step_no} ({what}): {name} is Ready/Allocated and convertible but not offered; offered: {:?}", got.keys().collect::<Vec<_>>()) });
            }
        }
        None
    };

    if let Some(v) = check_after(0, "initial list", &model, &fate) {
        return v;
    }
    for (i, step) in case.steps.iter().enumerate() {
        let what = match step {
            Step::Apply(g) => {
                let name = gs_name(g.name);
                if let Some(prev) = model.get(&name) {
                    if expected(prev).is_some() && expected(g).is_none() {
                        if g.shape == Shape::Ok {
                            had_unready = true;
                        } else {
                            had_unconvertible = true;
                        }
                    }
                }
                let ty = if model.contains_key(&name) { "MODIFIED" } else { "ADDED" };
                m.with_ns(&ns, |n| {
                    n.resource_version += 1;
                    let rv = n.resource_version;
                    let o = object(&ns, &name, g, rv);
                    n.objects.insert(name.clone(), o.clone());
                    n.log.push((rv, json!({"type": ty, "object": o}).to_string()));
                    n.notify.notify_waiters();
                });
                model.insert(name.clone(), g.clone());
                fate.insert(name.clone(), Fate::Applied);
                format!("{ty} {name} state={} shape={:?}", g.state, g.shape)
            }
            Step::Delete(nm) => {
                let name = gs_name(*nm);
                let Some(g) = model.remove(&name) else { continue };
                if expected(&g).is_some() {
                    had_delete = true;
                }
                m.with_ns(&ns, |n| {
                    n.resource_version += 1;
                    let rv = n.resource_version;
                    let o = object(&ns, &name, &g, rv);
                    n.objects.remove(&name);
                    n.log.push((rv, json!({"type": "DELETED", "object": o}).to_string()));
                    n.notify.notify_waiters();
                });
                fate.insert(name.clone(), Fate::Deleted);
                format!("DELETED {name}")
            }
            Step::Bookmark => {
                m.with_ns(&ns, |n| {
                    n.resource_version += 1;
                    let rv = n.resource_version;
                    n.log.push((rv, json!({"type": "BOOKMARK", "object": {"apiVersion": "agones.dev/v1", "kind": "GameServer", "metadata": {"resourceVersion": rv.to_string()}}}).to_string()));
                    n.notify.notify_waiters();
                });
                "BOOKMARK".to_string()
            }
            Step::DropWatch => {
                m.drop_watch(&ns);
                "watch connection dropped".to_string()
            }
            Step::Gone(relist) | Step::GoneMidList(relist) => {
                had_relist = true;
                let mid_list = matches!(step, Step::GoneMidList(_));
                if mid_list {
                    had_aborted_list = true;
                }
                let mut newm: BTreeMap<String, Gs> = BTreeMap::new();
                for g in relist {
                    newm.insert(gs_name(g.name), g.clone());
                }
                for name in model.keys() {
                    if !newm.contains_key(name) {
                        fate.insert(name.clone(), Fate::AbsentFromRelist);
                    }
                }
                for name in newm.keys() {
                    fate.insert(name.clone(), Fate::Applied);
                }
                m.with_ns(&ns, |n| {
                    n.resource_version += 1;
                    let rv = n.resource_version;
                    n.objects.retain(|k, _| k.starts_with("sentinel-"));
                    for (name, g) in &newm {
                        n.objects.insert(name.clone(), object(&ns, name, g, rv));
                    }
                    n.gone_pending = true;
                    n.fail_next_continue = mid_list;
                    n.close_epoch += 1;
                    n.notify.notify_waiters();
                });
                model = newm;
                format!("410 Gone, re-list with {} objects{}", model.len(), if mid_list { " (second page fails once)" } else { "" })
            }
        };
        if let Some(v) = check_after(i + 1, &what, &model, &fate) {
            drop(adapter);
            return v;
        }
    }
    drop(adapter);
    if had_delete {
        info.class("deleted_offered_server");
    }
    if had_relist {
        info.class("relist");
    }
    if had_unready {
        info.class("ready_to_not_ready");
    }
    if had_unconvertible {
        info.class("became_unconvertible");
    }
    if had_aborted_list && case.page_size < 20 {
        info.class("paged_relist_aborted_and_restarted");
    }
    info.class(format!("page_size:{}", case.page_size));
    info.nontrivial = had_delete || had_relist || had_unready;
    Verdict::Pass
}

fn gs() -> BoxedStrategy<Gs> {
    (
        0u8..6,
        prop_oneof![4 => Just("Ready"), 2 => Just("Allocated"), 3 => proptest::sample::select(STATES.to_vec())],
        prop_oneof![8 => Just(Shape::Ok), 1 => Just(Shape::NoStatus), 1 => Just(Shape::NoPorts), 1 => Just(Shape::BadAddress), 1 => Just(Shape::PortsKeyMissing)],
        prop_oneof![3 => (1u8..250, 1u8..250).prop_map(|(a, b)| format!("10.{a}.0.{b}")), 1 => Just("2001:db8::7".to_string())],
        proptest::collection::vec(1u16..65535, 1..3),
        proptest::collection::btree_map("c-[a-z]{1,5}", proptest::option::of(0u32..200), 0..3),
        proptest::collection::btree_map("l-[a-z]{1,5}", proptest::collection::vec("[a-z]{1,4}", 0..3), 0..2),
        proptest::collection::btree_map("lab/[a-z]{1,5}", "[a-z0-9]{0,6}", 0..3),
        proptest::collection::btree_map("ann/[a-z]{1,5}", "[ -~]{0,10}", 0..2),
    )
        .prop_map(|(name, state, shape, ip, ports, counters, lists, labels, annotations)| Gs { name, state: state.to_string(), shape, ip, ports, counters, lists, labels, annotations })
        .prop_flat_map(|g| (Just(g), proptest::option::weighted(0.08, (0u8..4, proptest::sample::select(vec!["Ready", "Shutdown", "Allocated", "blue"])))))
        .prop_map(|(mut g, clash)| {
            // a label / annotation / counter / list that is literally called "state"
            if let Some((whichh, v)) = clash {
                match whichh {
                    0 => {
                        g.labels.insert("state".into(), v.to_string());
                    }
                    1 => {
                        g.annotations.insert("state".into(), v.to_string());
                    }
                    2 => {
                        g.counters.insert("state".into(), Some(7));
                    }
                    _ => {
                        g.lists.insert("state".into(), vec![v.to_string()]);
                    }
                }
            }
            g
        })
        .boxed()
}

impl Check for C20 {
    type Case = Case;
    fn id(&self) -> &'static str {
        "C20"
    }
    fn shards(&self, _tier: Tier) -> usize {
        16
    }
    fn strategy(&self, tier: Tier) -> BoxedStrategy<Case> {
        let max_steps = tier.pick(14usize, 40);
        let step = prop_oneof![
            10 => gs().prop_map(Step::Apply),
            4 => (0u8..6).prop_map(Step::Delete),
            1 => Just(Step::Bookmark),
            1 => Just(Step::DropWatch),
            1 => proptest::collection::vec(gs(), 0..4).prop_map(Step::Gone),
            1 => proptest::collection::vec(gs(), 2..6).prop_map(Step::GoneMidList),
        ];
        (proptest::collection::vec(gs(), 0..5), proptest::collection::vec(step, 3..max_steps), prop_oneof![2 => Just(2u32), 1 => Just(3u32), 1 => Just(500u32)]).prop_map(|(initial, steps, page_size)| Case { initial, steps, page_size }).boxed()
    }
    fn max_shrink_iters(&self) -> u32 {
        40
    }
    fn cases(&self, tier: Tier) -> u64 {
        tier.pick(96, 3_000)
    }
    fn run(&self, case: &Case) -> (Verdict, CaseInfo) {
        let mut info = CaseInfo::default();
        let v = decide(case, &mut info);
        (v, info)
    }
    fn rule(&self) -> String {
        "per namespace a history of 3-14 (quick) / 3-40 (thorough) steps over up to 6 GameServer names: initial list contents; ADDED/MODIFIED with state from {Scheduled, Ready, Allocated, Reserved, Shutdown, Unhealthy}, address, ports, counters, lists, labels, annotations; updates that make an object unconvertible (no status, no ports, no `ports` key, bad address); DELETED; BOOKMARK; dropped watch connection; 410 Gone followed by a re-list with generated contents. non-trivial = the history deletes an offered server, re-lists, or moves an offered server to a non-ready state; distinct = distinct case".into()
    }
    fn assumptions(&self) -> Vec<String> {
        vec![
            "barrier: after every step a fresh Ready sentinel GameServer is emitted; once discover() shows it, everything before it has been applied (events are applied in order); a sentinel missing after 30 s is inconclusive".into(),
            "sentinels are excluded from the comparison".into(),
            "metadata keys of counters, lists, labels and annotations are disjoint by construction".into(),
            "the mock API server replays watch events after the requested resourceVersion, like a real API server".into(),
        ]
    }
    fn sample(&self, case: &Case) -> Value {
        json!({"initial": case.initial.iter().map(|g| format!("{}:{}:{:?}", gs_name(g.name), g.state, g.shape)).collect::<Vec<_>>(), "steps": case.steps.iter().map(|s| match s { Step::Apply(g) => format!("apply {}:{}:{:?}", gs_name(g.name), g.state, g.shape), Step::Delete(n) => format!("delete {}", gs_name(*n)), Step::Gone(l) => format!("gone/relist {}", l.len()), Step::GoneMidList(l) => format!("gone/relist {} with an aborted page", l.len()), o => format!("{o:?}") }).collect::<Vec<_>>()})
    }
}
