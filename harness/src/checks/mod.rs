pub mod c11;
