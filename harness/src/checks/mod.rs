pub mod c05;
pub mod c11;
