pub mod auth;
pub mod c03;
pub mod c04;
pub mod c05;
pub mod c06;
pub mod c09;
pub mod c10;
pub mod c11;
