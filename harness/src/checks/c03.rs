//! C03 — The player is transferred to exactly the target the strategy chose.
//!
//! Generated discovery / filter / strategy verdicts, client locales and localisation tables (the real
//! `FixedLocalizationAdapter`). Oracle: the filter sees discovery's list, the strategy sees the
//! filter's result, the single Transfer (last packet) carries the chosen address; on "no target" the
//! Disconnect text is the message of the first locale of the reference fallback chain that has a table.

use crate::gens;
use crate::refcodec::{Pkt, Text};
use crate::runner::{CaseInfo, Check, Tier, Verdict};
use crate::sim::{self, AdapterScript, ConnCfg, FilterV, LocV, LoginScript, StrategyV, TargetSpec, TransportScript};
use proptest::prelude::*;
use serde::{Deserialize, Serialize};
use serde_json::Value;
use std::collections::BTreeMap;
use std::net::{IpAddr, SocketAddr};

#[derive(Clone, Debug, Serialize, Deserialize)]
pub struct Case {
    pub cfg: ConnCfg,
    pub login: LoginScript,
    pub adapters: AdapterScript,
    pub select_seed: u64,
    /// how the transport accepts the server's writes (empty = everything at once); used together with a discovery
    /// that completes while the first Keep Alive is still on its way out
    #[serde(default)]
    pub wscript: Vec<sim::WStep>,
}

pub struct C03;

/// reported -> reported minus region -> ... -> default -> default minus region -> ...
pub fn fallback_chain(reported: Option<&str>, default: &str) -> Vec<String> {
    fn push(chain: &mut Vec<String>, locale: &str) {
        let mut cur = locale;
        chain.push(cur.to_string());
        while let Some(i) = cur.rfind('_') {
            cur = &cur[..i];
            chain.push(cur.to_string());
        }
    }
    let mut chain = Vec::new();
    push(&mut chain, reported.unwrap_or(default));
    push(&mut chain, default);
    chain
}

fn targets_of(v: &Value) -> Vec<TargetSpec> {
    serde_json::from_value(v["targets"].clone()).unwrap_or_default()
}

fn decide(case: &Case, out: &sim::SimOutcome, info: &mut CaseInfo) -> Verdict {
    if let sim::ServerEnd::Panicked { msg } = &out.end {
        return Verdict::Fail { sig: "panic".into(), msg: format!("connection handler panicked: {msg}") };
    }
    if matches!(out.end, sim::ServerEnd::Hung) {
        return Verdict::Fail { sig: "hung".into(), msg: "listen did not return".into() };
    }
    let transfers: Vec<(usize, String, i32)> = out
        .cb
        .iter()
        .enumerate()
        .filter_map(|(i, (_, p))| match p {
            Pkt::CfgTransfer { host, port } => Some((i, host.clone(), *port)),
            _ => None,
        })
        .collect();
    let disconnects: Vec<(usize, Text)> = out
        .cb
        .iter()
        .enumerate()
        .filter_map(|(i, (_, p))| match p {
            Pkt::CfgDisconnect { reason } => Some((i, reason.clone())),
            _ => None,
        })
        .collect();
    let filter_calls = out.calls("filter");
    let select_calls = out.calls("select");
    let discover_calls = out.calls("discover");
    if discover_calls.len() != 1 {
        return Verdict::Fail { sig: "discovery-call-count".into(), msg: format!("discovery consulted {} times", discover_calls.len()) };
    }
    // when a backend call fails while a Keep Alive is only partly written, the connection ends with that frame cut
    // off: an abrupt end, not a broken stream (nothing follows the fragment)
    let cut_off_by_error = !case.wscript.is_empty() && !out.returned_ok() && out.stream_broken.is_none() && transfers.is_empty() && !out.cb.iter().any(|(_, p)| matches!(p, Pkt::CfgDisconnect { .. }));
    if (out.stream_broken.is_some() || out.cb_leftover != 0) && !cut_off_by_error {
        return Verdict::Fail { sig: "clientbound-stream-broken".into(), msg: format!("{:?}, {} stray bytes", out.stream_broken, out.cb_leftover) };
    }

    // discovery failed: nothing further
    let Some(discovered) = &case.adapters.discovery else {
        info.class("outcome:discovery_error");
        if !transfers.is_empty() {
            return Verdict::Fail { sig: "transfer-after-discovery-error".into(), msg: "discovery failed but a Transfer was sent".into() };
        }
        return Verdict::Pass;
    };
    // the filter sees exactly discovery's list
    if filter_calls.len() != 1 {
        return Verdict::Fail { sig: "filter-call-count".into(), msg: format!("filters consulted {} times after a successful discovery", filter_calls.len()) };
    }
    let seen = targets_of(filter_calls[0]);
    if seen != *discovered {
        return Verdict::Fail { sig: "filter-input-differs-from-discovery".into(), msg: format!("filters were offered {seen:?}, discovery returned {discovered:?}") };
    }
    let Some(filtered) = sim::apply_filter(&case.adapters.filter, discovered.clone()) else {
        info.class("outcome:filter_error");
        if !select_calls.is_empty() {
            return Verdict::Fail { sig: "select-after-filter-error".into(), msg: "filtering failed but the strategy was consulted".into() };
        }
        if !transfers.is_empty() {
            return Verdict::Fail { sig: "transfer-after-filter-error".into(), msg: "filtering failed but a Transfer was sent".into() };
        }
        return Verdict::Pass;
    };
    if select_calls.len() != 1 {
        return Verdict::Fail { sig: "select-call-count".into(), msg: format!("strategy consulted {} times", select_calls.len()) };
    }
    let offered = targets_of(select_calls[0]);
    if offered != filtered {
        let sig = if offered == *discovered && filtered != *discovered { "strategy-offered-unfiltered-list" } else { "strategy-input-differs-from-filter-output" };
        return Verdict::Fail { sig: sig.into(), msg: format!("strategy was offered {offered:?}, the filters returned {filtered:?}") };
    }
    match sim::apply_strategy(&case.adapters.strategy, &filtered) {
        Err(()) => {
            info.class("outcome:strategy_error");
            if !transfers.is_empty() {
                return Verdict::Fail { sig: "transfer-after-strategy-error".into(), msg: "selection failed but a Transfer was sent".into() };
            }
            Verdict::Pass
        }
        Ok(Some(chosen)) => {
            info.class("outcome:transfer");
            let addr: SocketAddr = chosen.addr.parse().unwrap();
            if addr.is_ipv6() {
                info.class("chosen:ipv6");
                info.nontrivial = true;
            }
            let pos = filtered.iter().position(|t| *t == chosen);
            if filtered.len() >= 2 && pos != Some(0) {
                info.class("chosen:not_first");
                info.nontrivial = true;
            }
            if pos.is_none() {
                info.class("chosen:foreign");
            }
            if transfers.len() != 1 {
                return Verdict::Fail { sig: "transfer-count".into(), msg: format!("{} Transfer packets, expected exactly one; packets: {:?}; end: {}", transfers.len(), out.cb_kinds(), out.end_label()) };
            }
            let (i, host, port) = &transfers[0];
            if *i != out.cb.len() - 1 {
                return Verdict::Fail { sig: "transfer-not-last".into(), msg: format!("Transfer is packet {} of {}: {:?}", i + 1, out.cb.len(), out.cb_kinds()) };
            }
            if !disconnects.is_empty() {
                return Verdict::Fail { sig: "disconnect-and-transfer".into(), msg: "both a Disconnect and a Transfer were sent".into() };
            }
            let host_ip: Option<IpAddr> = host.parse().ok();
            if host_ip != Some(addr.ip()) || *port != i32::from(addr.port()) {
                let other = filtered.iter().chain(discovered.iter()).find(|t| t.addr.parse::<SocketAddr>().is_ok_and(|a| Some(a.ip()) == host_ip && i32::from(a.port()) == *port));
                let sig = match other {
                    Some(_) => "transfer-to-other-target",
                    None => "transfer-address-mismatch",
                };
                return Verdict::Fail { sig: sig.into(), msg: format!("Transfer carries {host}:{port}, the strategy chose {} ({})", chosen.addr, chosen.identifier) };
            }
            Verdict::Pass
        }
        Ok(None) => {
            info.class("outcome:no_target");
            if !transfers.is_empty() {
                return Verdict::Fail { sig: "transfer-without-chosen-target".into(), msg: "no target was chosen but a Transfer was sent".into() };
            }
            if disconnects.len() != 1 {
                return Verdict::Fail { sig: "disconnect-count".into(), msg: format!("{} Disconnect packets when no target was chosen; packets: {:?}; end: {}", disconnects.len(), out.cb_kinds(), out.end_label()) };
            }
            if disconnects[0].0 != out.cb.len() - 1 {
                return Verdict::Fail { sig: "disconnect-not-last".into(), msg: format!("packets after the Disconnect: {:?}", out.cb_kinds()) };
            }
            // expected text
            if let LocV::Fixed { default_locale, tables } = &case.adapters.loc {
                let chain = fallback_chain(Some(&case.login.locale), default_locale);
                let depth = chain.iter().position(|l| tables.contains_key(l));
                match depth {
                    None => {
                        info.class("locale:no_table_in_chain(unspecified)");
                    }
                    Some(d) => {
                        let reported_len = fallback_chain(Some(&case.login.locale), "").len() - 1;
                        info.class(if d == 0 { "locale:exact" } else if d < reported_len { "locale:region_fallback" } else { "locale:default_fallback" });
                        if d >= 1 {
                            info.nontrivial = true;
                        }
                        let expected = &tables[&chain[d]]["disconnect_no_target"];
                        let expected_text = Text::from_passage_string(expected).unwrap();
                        if disconnects[0].1.normalized() != expected_text.normalized() {
                            // which table did it come from?
                            let from = tables.iter().find(|(_, t)| Text::from_passage_string(&t["disconnect_no_target"]).is_some_and(|x| x.normalized() == disconnects[0].1.normalized())).map(|(l, _)| l.clone());
                            let sig = if from.as_deref().is_some_and(|l| fallback_chain(None, default_locale).contains(&l.to_string())) && d < reported_len { "disconnect-text-ignores-reported-locale" } else { "disconnect-text-wrong-locale" };
                            return Verdict::Fail { sig: sig.into(), msg: format!("client reported {:?}, default {:?}, tables {:?}: expected the message of {:?} ({expected:?}), got {:?} (table {from:?})", case.login.locale, default_locale, tables.keys().collect::<Vec<_>>(), chain[d], disconnects[0].1) };
                        }
                    }
                }
            }
            Verdict::Pass
        }
    }
}

fn locale_pool() -> Vec<&'static str> {
    vec!["de_DE", "de_de", "de", "en_us", "en_US", "en", "fr_CA", "fr_ca", "fr", "zh_cn", "xx_YY", "a_b_c", "_", "", "pt_br", "日本_語"]
}

fn msg(locale: &str, key: &str, json: bool) -> String {
    if json {
        serde_json::json!({"text": format!("{key} [{locale}]"), "bold": locale.len() % 2 == 0}).to_string()
    } else {
        format!("{key} <{locale}>")
    }
}

/// the localization tables passage ships as its default configuration
pub fn shipped_loc() -> LocV {
    let d = passage::config::FixedLocalization::default();
    LocV::Fixed { default_locale: d.default_locale, tables: d.messages.into_iter().map(|(k, v)| (k, v.into_iter().collect())).collect() }
}

fn loc_strategy() -> BoxedStrategy<(String, LocV)> {
    let shipped = proptest::sample::select(vec!["fr_FR", "fr_fr", "fr", "es_MX", "es", "de_AT", "de", "zh-CN", "zh_CN", "ru_RU", "ru", "en_GB", "en", "ja_JP", "", "pt_br"]).prop_map(|reported| (reported.to_string(), shipped_loc()));
    prop_oneof![6 => generated_loc_strategy(), 1 => shipped].boxed()
}

fn generated_loc_strategy() -> BoxedStrategy<(String, LocV)> {
    let pool = locale_pool();
    (proptest::sample::select(pool.clone()), proptest::sample::select(pool), any::<u8>(), any::<u8>())
        .prop_map(|(reported, default, subset, style)| {
            let chain = fallback_chain(Some(reported), default);
            let mut tables: BTreeMap<String, BTreeMap<String, String>> = BTreeMap::new();
            let mut names: Vec<String> = chain.clone();
            names.push("unrelated_ZZ".to_string());
            names.push("unrelated".to_string());
            names.dedup();
            for (i, l) in names.iter().enumerate() {
                // each candidate table present with probability 1/2 (bit i of subset); keep the last default entry mostly present
                if (subset >> (i % 8)) & 1 == 1 {
                    let json = (style >> (i % 8)) & 1 == 1;
                    let mut t = BTreeMap::new();
                    t.insert("disconnect_no_target".to_string(), msg(l, "disconnect_no_target", json));
                    t.insert("disconnect_timeout".to_string(), msg(l, "disconnect_timeout", json));
                    tables.insert(l.clone(), t);
                }
            }
            (reported.to_string(), LocV::Fixed { default_locale: default.to_string(), tables })
        })
        .boxed()
}

impl Check for C03 {
    type Case = Case;
    fn id(&self) -> &'static str {
        "C03"
    }
    fn strategy(&self, _tier: Tier) -> BoxedStrategy<Case> {
        let discovery = prop_oneof![8 => gens::targets(6).prop_map(Some), 1 => Just(None)];
        let filter = prop_oneof![
            3 => Just(FilterV::Identity),
            4 => any::<u16>().prop_map(FilterV::Mask),
            2 => any::<u8>().prop_map(FilterV::Rotate),
            1 => Just(FilterV::Reverse),
            1 => Just(FilterV::Empty),
            1 => Just(FilterV::Err),
        ];
        let strategy = prop_oneof![
            6 => any::<u16>().prop_map(StrategyV::Pick),
            3 => Just(StrategyV::None),
            1 => gens::target().prop_map(StrategyV::Foreign),
            1 => Just(StrategyV::Err),
        ];
        (gens::client_addr(), gens::secret_opt(), discovery, filter, strategy, loc_strategy(), gens::name(), gens::uuid(), any::<u64>(), prop_oneof![Just(2i32), Just(3i32)])
            .prop_map(|(client_addr, secret, discovery, filter, strategy, (locale, loc), name, uuid, select_seed, intent)| Case {
                cfg: ConnCfg { secret, client_addr, ..Default::default() },
                login: LoginScript { intent, name, uuid, locale, ..Default::default() },
                adapters: AdapterScript { discovery, filter, strategy, loc, ..Default::default() },
                select_seed,
                wscript: vec![],
            })
            .prop_flat_map(|case| {
                // a share of cases: discovery takes a little over one keep-alive period and completes while the Keep
                // Alive of the 16 s tick is only partly written or still pending; the outcome must be the same
                (Just(case), prop::bool::weighted(0.08), 50u16..1500, proptest::option::of(1u16..9)).prop_map(|(mut case, slow, pending_ms, prefix)| {
                    if slow {
                        case.adapters.discovery_ms = 16_000 + u32::from(pending_ms) / 2;
                        // a few bytes are accepted and the rest stays pending, or nothing is accepted for a while
                        let disturbed: Vec<sim::WStep> = match prefix {
                            Some(k) => vec![sim::WStep::Prefix(k), sim::WStep::PendingFor(pending_ms)],
                            None => vec![sim::WStep::PendingFor(pending_ms)],
                        };
                        // writes before the configuration phase: session cookie request, (auth cookie request,)
                        // Encryption Request, Login Success
                        let before = 3 + usize::from(case.login.intent == 3 && case.cfg.secret.is_some());
                        case.wscript = vec![sim::WStep::All; before];
                        case.wscript.extend(disturbed);
                    }
                    case
                })
            })
            .boxed()
    }
    fn cases(&self, tier: Tier) -> u64 {
        tier.pick(6_000, 200_000)
    }
    fn run(&self, case: &Case) -> (Verdict, CaseInfo) {
        let login = case.login.clone();
        let out = sim::run_sim(&case.cfg, &case.adapters, &TransportScript { wscript: case.wscript.clone(), rscript: vec![] }, case.select_seed, 1000, crate::client_fn!(|c| sim::drive_login(c, &login).await));
        if !case.wscript.is_empty() {
            // (set below) a Keep Alive write that is partial or pending when discovery completes
        }
        let mut info = CaseInfo::default();
        if !case.wscript.is_empty() {
            info.class("keep_alive_write_disturbed_while_discovery_completes");
        }
        if !matches!(case.adapters.filter, FilterV::Identity) {
            info.class("filter:changes_list");
        }
        let v = decide(case, &out, &mut info);
        if info.classes.iter().any(|c| c.ends_with("_error")) {
            info.nontrivial = true;
        }
        (v, info)
    }
    fn rule(&self) -> String {
        "generated discovered lists (0-6 targets, IPv4/IPv6 incl. :: and v4-mapped, duplicate identifiers/addresses), discovery Ok/Err, filter verdicts (identity, mask, rotate, reverse, empty, error), strategy verdicts (index, none, foreign target, error), reported locale and default locale from a pool, tables for a random subset of the fallback chain plus unrelated locales; non-trivial = chosen target not first of >= 2, or IPv6 choice, or locale fallback depth >= 1, or an adapter error; distinct = distinct case".into()
    }
    fn assumptions(&self) -> Vec<String> {
        vec![
            "localisation tables always define both message keys; when no table exists anywhere in the fallback chain the text is unspecified and only the Disconnect itself is asserted".into(),
            "the Transfer host is compared as an IP address (its textual spelling is not asserted), the port numerically".into(),
            "locale matching is exact (case-sensitive), as nothing in the property asks for case folding".into(),
        ]
    }
    fn sample(&self, case: &Case) -> Value {
        serde_json::json!({"discovery": case.adapters.discovery.as_ref().map(|d| d.iter().map(|t| t.addr.clone()).collect::<Vec<_>>()), "filter": case.adapters.filter, "strategy": case.adapters.strategy, "locale": case.login.locale, "loc": match &case.adapters.loc { LocV::Fixed { default_locale, tables } => serde_json::json!({"default": default_locale, "tables": tables.keys().collect::<Vec<_>>()}), _ => Value::Null }})
    }
}
