//! C04 — No client input can crash the handler or make it allocate unboundedly.
//!
//! A well-formed transcript (status / login / transfer) is played up to a generated step; that step's
//! frame is replaced by a mutated one (before or after the encryption switch), then the client ends
//! the stream. Oracle: no panic; the handler returns after the end of stream; the largest single
//! allocation made while the handler ran stays within 8 x max frame + 256 KiB; a frame whose declared
//! length is non-positive or above the configured maximum is refused before its body exists; inputs
//! that are malformed by construction end the connection with an error.

use crate::cookie;
use crate::gens;
use crate::refcodec::{self as rc, Pkt, hexbytes};
use crate::runner::{CaseInfo, Check, Tier, Verdict};
use crate::sim::{self, AdapterScript, ConnCfg, EncResp, StrategyV, TransportScript};
use proptest::prelude::*;
use serde::{Deserialize, Serialize};
use serde_json::{Value, json};
use std::sync::{Arc, Mutex};

#[derive(Clone, Debug, Serialize, Deserialize, PartialEq)]
pub enum LenClass {
    Min,
    MinusOne,
    Zero,
    /// true length - 1
    Short,
    /// true length + 1
    Long,
    /// exactly the configured maximum (padded body; legal)
    Max,
    MaxPlusOne,
    TwiceMax,
    I32Max,
    /// an arbitrary value
    Value(i32),
    /// (k << shift) + low: far above the maximum, but small when only the first shift/7 groups are read
    HighBits { shift: u8, k: u8, low: u8 },
}

#[derive(Clone, Debug, Serialize, Deserialize, PartialEq)]
pub enum Mutn {
    /// the frame as it is
    None,
    /// replace the frame's length prefix
    OuterLen(LenClass),
    /// replace the length prefix of the n-th string / byte-array field
    InnerLen { field: u8, class: LenClass },
    /// cut the frame after a fraction of its bytes (then the stream ends)
    Truncate(u16),
    /// encode a VarInt (outer length, packet id, or n-th VarInt field) with this many groups, all but the last with the continuation bit
    Overlong { whichh: u8, groups: u8 },
    /// invalid UTF-8 inside the n-th string field
    BadUtf8 { field: u8 },
    /// an enum ordinal / next-state outside the defined range
    Ordinal(i32),
    /// the two ciphertexts of the Encryption Response replaced by garbage of these lengths
    GarbageRsa(u16, u16),
    /// an honest Encryption Response carrying a shared secret of this size
    SecretSize(u8),
    /// a well-formed Encryption Response whose verify token is only the first n bytes of the issued one (or, from 32
    /// on, the issued token followed by n - 32 more bytes)
    TokenLength(u8),
    /// arbitrary bytes instead of the frame
    Random(#[serde(with = "hexbytes")] Vec<u8>),
    /// the frame, and then arbitrary bytes
    ThenRandom(#[serde(with = "hexbytes")] Vec<u8>),
    /// instead of the frame: `kib` KiB of the repeated pattern (e.g. 0xFF: a length prefix that never ends)
    Flood { #[serde(with = "hexbytes")] pattern: Vec<u8>, kib: u16 },
}

#[derive(Clone, Debug, Serialize, Deserialize)]
pub struct Case {
    pub cfg: ConnCfg,
    pub intent: i32,
    /// step of the transcript that is mutated (mapped monotonically onto the transcript)
    pub at: u16,
    pub mutation: Mutn,
    pub name: String,
    pub select_seed: u64,
    /// the locale reported in Client Information; the Disconnect text is produced by the real fixed localization adapter
    #[serde(default = "default_locale")]
    pub locale: String,
}

fn default_locale() -> String {
    "en_us".into()
}

pub struct C04;

#[derive(Clone, Debug)]
enum Field {
    VarInt(i32),
    Str(Vec<u8>),
    Bytes(Vec<u8>),
    Raw(Vec<u8>),
}

fn fields_of(p: &Pkt) -> Vec<Field> {
    match p {
        Pkt::Handshake { protocol, host, port, next } => vec![Field::VarInt(*protocol), Field::Str(host.as_bytes().to_vec()), Field::Raw(port.to_be_bytes().to_vec()), Field::VarInt(*next)],
        Pkt::StatusPing { payload } => vec![Field::Raw(payload.to_be_bytes().to_vec())],
        Pkt::LoginStart { name, uuid } => vec![Field::Str(name.as_bytes().to_vec()), Field::Raw(uuid.as_bytes().to_vec())],
        Pkt::LoginCookieResponse { key, payload } => {
            let mut v = vec![Field::Str(key.as_bytes().to_vec()), Field::Raw(vec![u8::from(payload.is_some())])];
            if let Some(p) = payload {
                v.push(Field::Bytes(p.clone()));
            }
            v
        }
        Pkt::EncryptionResponse { secret, token } => vec![Field::Bytes(secret.clone()), Field::Bytes(token.clone())],
        Pkt::ClientInformation { locale, view_distance, chat_mode, chat_colors, skin_parts, main_hand, text_filtering, server_listing, particle_status } => vec![
            Field::Str(locale.as_bytes().to_vec()),
            Field::Raw(vec![*view_distance as u8]),
            Field::VarInt(*chat_mode),
            Field::Raw(vec![u8::from(*chat_colors)]),
            Field::Raw(vec![*skin_parts]),
            Field::VarInt(*main_hand),
            Field::Raw(vec![u8::from(*text_filtering)]),
            Field::Raw(vec![u8::from(*server_listing)]),
            Field::VarInt(*particle_status),
        ],
        Pkt::CfgKeepAliveSb { id } => vec![Field::Raw(id.to_be_bytes().to_vec())],
        Pkt::CfgResourcePackResponse { uuid, result } => vec![Field::Raw(uuid.as_bytes().to_vec()), Field::VarInt(*result)],
        _ => vec![],
    }
}

fn overlong(v: i32, groups: u8) -> Vec<u8> {
    let groups = groups.clamp(1, 10) as usize;
    let mut u = v as u32 as u64;
    let mut out = Vec::new();
    for i in 0..groups {
        let g = (u & 0x7f) as u8;
        u >>= 7;
        out.push(if i + 1 < groups { g | 0x80 } else { g });
    }
    out
}

fn len_value(class: &LenClass, true_len: i32, max: i32) -> i32 {
    match class {
        LenClass::Min => i32::MIN,
        LenClass::MinusOne => -1,
        LenClass::Zero => 0,
        LenClass::Short => true_len - 1,
        LenClass::Long => true_len + 1,
        LenClass::Max => max,
        LenClass::MaxPlusOne => max.saturating_add(1),
        LenClass::TwiceMax => max.saturating_mul(2),
        LenClass::I32Max => i32::MAX,
        LenClass::Value(v) => *v,
        LenClass::HighBits { shift, k, low } => {
            let shift = [14u32, 21, 28][usize::from(*shift) % 3];
            let k = i64::from((*k).max(1)) % (1i64 << (31 - shift).min(7));
            let v = (k.max(1) << shift) + i64::from((*low).max(1));
            // keep it above every configured maximum (<= 2^20): otherwise it is a legal length
            if v <= i64::from(max) || v > i64::from(i32::MAX) { i32::MAX - i32::from(*low) } else { v as i32 }
        }
    }
}

struct Built {
    /// bytes sent first (the length prefix when it is the subject)
    first: Vec<u8>,
    /// bytes sent 1 ms later
    rest: Vec<u8>,
    /// the declared outer length is non-positive or above the maximum: must be refused before the body exists
    refuse_on_prefix: bool,
    /// malformed by construction: the connection must end with an error
    must_err: bool,
    reached: bool,
}

fn encode_fields(fields: &[Field]) -> Vec<u8> {
    let mut w = rc::W::new();
    for f in fields {
        match f {
            Field::VarInt(v) => {
                w.varint(*v);
            }
            Field::Str(b) | Field::Bytes(b) => {
                w.varint(b.len() as i32).raw(b);
            }
            Field::Raw(b) => {
                w.raw(b);
            }
        }
    }
    w.0
}

/// builds the (possibly mutated) wire bytes for one step
fn build(pkt: &Pkt, m: &Mutn, max: i32, body_ignored: bool) -> Built {
    let id = pkt.id();
    let fields = fields_of(pkt);
    let idb = rc::varint_bytes(id);
    let plain_body = if fields.is_empty() { pkt.body() } else { encode_fields(&fields) };
    let normal = |body: &[u8]| -> Vec<u8> {
        let mut f = rc::varint_bytes((idb.len() + body.len()) as i32);
        f.extend_from_slice(&idb);
        f.extend_from_slice(body);
        f
    };
    let lenfields: Vec<usize> = fields.iter().enumerate().filter(|(_, f)| matches!(f, Field::Str(_) | Field::Bytes(_))).map(|(i, _)| i).collect();
    let strfields: Vec<usize> = fields.iter().enumerate().filter(|(_, f)| matches!(f, Field::Str(_))).map(|(i, _)| i).collect();
    let varfields: Vec<usize> = fields.iter().enumerate().filter(|(_, f)| matches!(f, Field::VarInt(_))).map(|(i, _)| i).collect();
    match m {
        Mutn::None | Mutn::SecretSize(_) | Mutn::GarbageRsa(..) | Mutn::TokenLength(_) => Built { first: normal(&plain_body), rest: vec![], refuse_on_prefix: false, must_err: false, reached: true },
        Mutn::OuterLen(class) => {
            let true_len = (idb.len() + plain_body.len()) as i32;
            let v = len_value(class, true_len, max);
            let mut rest = idb.clone();
            rest.extend_from_slice(&plain_body);
            // pad so that a declared (legal) longer length is actually delivered
            if v > true_len && v <= max.saturating_add(1).min(1 << 21) {
                rest.resize(v as usize, 0);
            }
            let refuse = v <= 0 || v > max;
            Built { first: rc::varint_bytes(v), rest, refuse_on_prefix: refuse, must_err: refuse, reached: true }
        }
        Mutn::InnerLen { field, class } => {
            if lenfields.is_empty() {
                return Built { first: normal(&plain_body), rest: vec![], refuse_on_prefix: false, must_err: false, reached: false };
            }
            let fi = lenfields[*field as usize % lenfields.len()];
            let mut w = rc::W::new();
            let mut v_used = 0;
            let mut remaining_after = 0usize;
            for (i, f) in fields.iter().enumerate() {
                match f {
                    Field::VarInt(v) => {
                        w.varint(*v);
                    }
                    Field::Str(b) | Field::Bytes(b) => {
                        if i == fi {
                            v_used = len_value(class, b.len() as i32, max);
                            w.varint(v_used).raw(b);
                            remaining_after = b.len();
                        } else {
                            w.varint(b.len() as i32).raw(b);
                            if i > fi {
                                remaining_after += b.len() + 1;
                            }
                        }
                    }
                    Field::Raw(b) => {
                        w.raw(b);
                        if i > fi {
                            remaining_after += b.len();
                        }
                    }
                }
            }
            // certainly malformed: negative, longer than everything that follows in the frame, or (for the last
            // field of the frame) longer than the bytes the frame still holds
            let is_last = fi + 1 == fields.len();
            let own_len = match &fields[fi] {
                Field::Str(b) | Field::Bytes(b) => b.len(),
                _ => 0,
            };
            let must_err = !body_ignored && (v_used < 0 || (v_used as usize) > remaining_after + 8 || (is_last && (v_used as usize) > own_len));
            Built { first: normal(&w.0), rest: vec![], refuse_on_prefix: false, must_err, reached: true }
        }
        Mutn::Truncate(raw) => {
            let f = normal(&plain_body);
            let n = crate::runner::idx(*raw, f.len());
            Built { first: f[..n].to_vec(), rest: vec![], refuse_on_prefix: false, must_err: true, reached: true }
        }
        Mutn::Overlong { whichh, groups } => {
            let groups = (*groups).clamp(2, 10);
            match whichh % 3 {
                0 => {
                    // outer length
                    let true_len = (idb.len() + plain_body.len()) as i32;
                    let mut f = overlong(true_len, groups);
                    f.extend_from_slice(&idb);
                    f.extend_from_slice(&plain_body);
                    Built { first: f, rest: vec![], refuse_on_prefix: false, must_err: false, reached: true }
                }
                1 => {
                    // packet id
                    let ido = overlong(id, groups);
                    let mut f = rc::varint_bytes((ido.len() + plain_body.len()) as i32);
                    f.extend_from_slice(&ido);
                    f.extend_from_slice(&plain_body);
                    Built { first: f, rest: vec![], refuse_on_prefix: false, must_err: false, reached: true }
                }
                _ => {
                    if varfields.is_empty() {
                        return Built { first: normal(&plain_body), rest: vec![], refuse_on_prefix: false, must_err: false, reached: false };
                    }
                    let fi = varfields[groups as usize % varfields.len()];
                    let mut body = Vec::new();
                    for (i, f) in fields.iter().enumerate() {
                        match f {
                            Field::VarInt(v) if i == fi => body.extend(overlong(*v, groups)),
                            other => body.extend(encode_fields(std::slice::from_ref(other))),
                        }
                    }
                    Built { first: normal(&body), rest: vec![], refuse_on_prefix: false, must_err: false, reached: true }
                }
            }
        }
        Mutn::BadUtf8 { field } => {
            if strfields.is_empty() {
                return Built { first: normal(&plain_body), rest: vec![], refuse_on_prefix: false, must_err: false, reached: false };
            }
            let fi = strfields[*field as usize % strfields.len()];
            let mut fs = fields.clone();
            if let Field::Str(b) = &mut fs[fi] {
                b.extend_from_slice(&[0xC3, 0x28, 0xff]);
            }
            Built { first: normal(&encode_fields(&fs)), rest: vec![], refuse_on_prefix: false, must_err: !body_ignored, reached: true }
        }
        Mutn::Ordinal(v) => {
            if varfields.is_empty() || matches!(pkt, Pkt::Handshake { .. }) && varfields.len() < 2 {
                return Built { first: normal(&plain_body), rest: vec![], refuse_on_prefix: false, must_err: false, reached: false };
            }
            // the last VarInt field is an ordinal in both Handshake (next state) and Client Information (particle status)
            let fi = *varfields.last().unwrap();
            let mut fs = fields.clone();
            fs[fi] = Field::VarInt(*v);
            let valid = match pkt {
                Pkt::Handshake { .. } => (1..=3).contains(v),
                Pkt::CfgResourcePackResponse { .. } => (0..=7).contains(v),
                _ => (0..=2).contains(v),
            };
            Built { first: normal(&encode_fields(&fs)), rest: vec![], refuse_on_prefix: false, must_err: !valid, reached: true }
        }
        Mutn::Random(bytes) => Built { first: bytes.clone(), rest: vec![], refuse_on_prefix: false, must_err: false, reached: true },
        Mutn::Flood { pattern, kib } => {
            let n = usize::from(*kib) * 1024;
            let pat = if pattern.is_empty() { vec![0xffu8] } else { pattern.clone() };
            Built { first: pat.iter().cycle().take(n).copied().collect(), rest: vec![], refuse_on_prefix: false, must_err: false, reached: true }
        }
        Mutn::ThenRandom(bytes) => Built { first: normal(&plain_body), rest: bytes.clone(), refuse_on_prefix: false, must_err: false, reached: true },
    }
}

struct Obs {
    /// the transcript before the mutated step was accepted (the mutated frame was reached)
    reached: bool,
    refused_on_prefix: Option<(bool, u64, u64)>,
    must_err: bool,
    refuse_expected: bool,
    step_name: &'static str,
    encrypted: bool,
    done_before_eof: bool,
    /// virtual instant at which the mutated frame was handed to the transport
    mutated_at: u64,
}

fn run_case(case: &Case) -> (sim::SimOutcome, Obs) {
    let obs = Arc::new(Mutex::new(Obs { reached: false, refused_on_prefix: None, must_err: false, refuse_expected: false, step_name: "", encrypted: false, done_before_eof: false, mutated_at: u64::MAX }));
    let o2 = Arc::clone(&obs);
    let case2 = case.clone();
    let tables: std::collections::BTreeMap<String, std::collections::BTreeMap<String, String>> = ["en", "en_us", "de"]
        .iter()
        .map(|l| (l.to_string(), [("disconnect_no_target".to_string(), format!("no target ({l})")), ("disconnect_timeout".to_string(), format!("timeout ({l})"))].into_iter().collect()))
        .collect();
    let adapters = AdapterScript { strategy: StrategyV::None, loc: sim::LocV::Fixed { default_locale: "en_us".into(), tables }, ..Default::default() };
    let out = sim::run_sim(
        &case.cfg,
        &adapters,
        &TransportScript::default(),
        case.select_seed,
        2000,
        crate::client_fn!(|c| {
            let case = case2;
            let max = case.cfg.max_len;
            let secret16: Vec<u8> = (1u8..=16).collect();
            // the transcript
            let status = case.intent == 1;
            let with_auth_cookie = case.intent == 3 && case.cfg.secret.is_some();
            let mut steps: Vec<&'static str> = if status { vec!["Handshake", "StatusRequest", "Ping"] } else { vec!["Handshake", "LoginStart", "SessionCookie"] };
            if !status {
                if with_auth_cookie {
                    steps.push("AuthCookie");
                }
                steps.extend(["EncryptionResponse", "LoginAck", "PluginMessage", "KeepAlive", "ResourcePackResponse", "ClientInformation"]);
            }
            let at = crate::runner::idx(case.at, steps.len());
            c.cb_phase = if status { rc::Phase::Status } else { rc::Phase::Login };
            for (i, step) in steps.iter().enumerate() {
                let pkt = match *step {
                    "Handshake" => Pkt::Handshake { protocol: 770, host: "mc.example.net".into(), port: 25565, next: case.intent },
                    "StatusRequest" => Pkt::StatusRequest,
                    "Ping" => Pkt::StatusPing { payload: 0x0102030405060708 },
                    "LoginStart" => Pkt::LoginStart { name: case.name.clone(), uuid: uuid::Uuid::from_u128(42) },
                    "SessionCookie" => Pkt::LoginCookieResponse { key: cookie::SESSION_KEY.into(), payload: None },
                    "AuthCookie" => Pkt::LoginCookieResponse { key: cookie::AUTH_KEY.into(), payload: Some(vec![7u8; 40]) },
                    "EncryptionResponse" => {
                        let (variant, secret) = match (&case.mutation, i == at) {
                            (Mutn::GarbageRsa(a, b), true) => (EncResp::Garbage(vec![0x5a; *a as usize], vec![0xa5; *b as usize]), secret16.clone()),
                            (Mutn::SecretSize(n), true) => (EncResp::Honest, vec![9u8; *n as usize]),
                            (Mutn::TokenLength(n), true) if *n < 32 => (EncResp::TokenPrefix(*n), secret16.clone()),
                            (Mutn::TokenLength(n), true) => {
                                let mut t = c.enc_req.as_ref().map(|(_, t, _)| t.clone()).unwrap_or_default();
                                t.extend(std::iter::repeat(0x5a).take(usize::from(*n) - 32 + 1));
                                (EncResp::WrongToken(t), secret16.clone())
                            }
                            _ => (EncResp::Honest, secret16.clone()),
                        };
                        match c.encryption_response(&variant, &secret) {
                            Some(p) => p,
                            None => return,
                        }
                    }
                    "LoginAck" => Pkt::LoginAck,
                    "PluginMessage" => Pkt::CfgPluginMessageSb,
                    "KeepAlive" => Pkt::CfgKeepAliveSb { id: 1 },
                    "ResourcePackResponse" => Pkt::CfgResourcePackResponse { uuid: uuid::Uuid::from_u128(7), result: 3 },
                    _ => sim::client_information(&case.locale),
                };
                if c.server_done() {
                    return;
                }
                if i < at {
                    c.send(&pkt);
                    if *step == "EncryptionResponse" {
                        let k: [u8; 16] = secret16.clone().try_into().unwrap();
                        c.enable_encryption(&k);
                    }
                    c.settle().await;
                    c.drain();
                    continue;
                }
                // the mutated step
                let body_ignored = matches!(*step, "PluginMessage" | "StatusRequest" | "LoginAck");
                let b = build(&pkt, &case.mutation, max, body_ignored);
                let must_err = b.must_err
                    || matches!((&case.mutation, *step), (Mutn::GarbageRsa(..), "EncryptionResponse"))
                    || matches!((&case.mutation, *step), (Mutn::SecretSize(n), "EncryptionResponse") if *n != 16)
                    || matches!((&case.mutation, *step), (Mutn::TokenLength(_), "EncryptionResponse"));
                {
                    let mut o = o2.lock().unwrap();
                    o.reached = !c.server_done() && b.reached;
                    o.must_err = must_err;
                    o.refuse_expected = b.refuse_on_prefix;
                    o.step_name = step;
                    o.encrypted = c.enc.is_some();
                    o.mutated_at = c.now_ms();
                }
                let pulled_before = c.sh.lock().unwrap().pulled;
                c.push(&b.first);
                c.note_sb("mutated");
                c.settle().await;
                if b.refuse_on_prefix {
                    let s = c.sh.lock().unwrap();
                    let done = s.server_end.is_some();
                    let pulled = s.pulled - pulled_before;
                    drop(s);
                    o2.lock().unwrap().refused_on_prefix = Some((done, pulled, b.first.len() as u64));
                }
                if !b.rest.is_empty() {
                    c.push(&b.rest);
                    c.settle().await;
                }
                if *step == "EncryptionResponse" {
                    let k: [u8; 16] = secret16.clone().try_into().unwrap();
                    c.enable_encryption(&k);
                }
                c.settle().await;
                o2.lock().unwrap().done_before_eof = c.server_done();
                // end of stream
                c.close();
                return;
            }
        }),
    );
    let o = Arc::try_unwrap(obs).ok().map(|m| m.into_inner().unwrap()).unwrap();
    (out, o)
}

pub fn alloc_bound(max_len: i32) -> usize {
    8 * (max_len.max(0) as usize) + 256 * 1024
}

fn class_name(m: &Mutn) -> String {
    match m {
        Mutn::None => "unmutated".into(),
        Mutn::OuterLen(c) => format!("outer_len:{c:?}").split('(').next().unwrap().to_string(),
        Mutn::InnerLen { class, .. } => format!("inner_len:{class:?}").split('(').next().unwrap().to_string(),
        Mutn::Truncate(_) => "truncated".into(),
        Mutn::Overlong { whichh, .. } => format!("overlong_varint:{}", ["outer", "id", "field"][(*whichh % 3) as usize]),
        Mutn::BadUtf8 { .. } => "bad_utf8".into(),
        Mutn::Ordinal(_) => "ordinal".into(),
        Mutn::GarbageRsa(..) => "garbage_rsa".into(),
        Mutn::SecretSize(_) => "secret_size".into(),
        Mutn::TokenLength(_) => "token_length".into(),
        Mutn::Random(_) => "random_bytes".into(),
        Mutn::ThenRandom(_) => "frame_then_random".into(),
        Mutn::Flood { .. } => "flood".into(),
    }
}

impl Check for C04 {
    type Case = Case;
    fn id(&self) -> &'static str {
        "C04"
    }
    fn strategy(&self, _tier: Tier) -> BoxedStrategy<Case> {
        let lenclass = prop_oneof![
            Just(LenClass::Min),
            Just(LenClass::MinusOne),
            Just(LenClass::Zero),
            Just(LenClass::Short),
            Just(LenClass::Long),
            Just(LenClass::Max),
            Just(LenClass::MaxPlusOne),
            Just(LenClass::TwiceMax),
            Just(LenClass::I32Max),
            any::<i32>().prop_map(LenClass::Value),
            (-300i32..70_000).prop_map(LenClass::Value),
            (any::<u8>(), any::<u8>(), 1u8..60).prop_map(|(shift, k, low)| LenClass::HighBits { shift, k, low }),
            (any::<u8>(), any::<u8>(), 1u8..60).prop_map(|(shift, k, low)| LenClass::HighBits { shift, k, low }),
        ];
        let mutation = prop_oneof![
            1 => Just(Mutn::None),
            6 => lenclass.clone().prop_map(Mutn::OuterLen),
            6 => (any::<u8>(), lenclass).prop_map(|(field, class)| Mutn::InnerLen { field, class }),
            3 => any::<u16>().prop_map(Mutn::Truncate),
            3 => (any::<u8>(), 2u8..=10).prop_map(|(whichh, groups)| Mutn::Overlong { whichh, groups }),
            2 => any::<u8>().prop_map(|field| Mutn::BadUtf8 { field }),
            2 => prop_oneof![proptest::sample::select(vec![-1i32, 0, 3, 4, 5, i32::MAX, i32::MIN]), any::<i32>()].prop_map(Mutn::Ordinal),
            1 => (proptest::sample::select(vec![0u16, 1, 64, 127, 128, 129, 200, 1000]), proptest::sample::select(vec![0u16, 1, 64, 128, 200])).prop_map(|(a, b)| Mutn::GarbageRsa(a, b)),
            1 => proptest::sample::select(vec![0u8, 1, 8, 15, 17, 32, 100]).prop_map(Mutn::SecretSize),
            1 => proptest::sample::select(vec![0u8, 1, 16, 31, 32, 33, 60]).prop_map(Mutn::TokenLength),
            3 => proptest::collection::vec(any::<u8>(), 0..200).prop_map(Mutn::Random),
            1 => proptest::collection::vec(any::<u8>(), 1..60).prop_map(Mutn::ThenRandom),
            2 => (prop_oneof![3 => proptest::sample::select(vec![vec![0xffu8], vec![0x80u8], vec![0x81u8], vec![0xff, 0xff, 0xff, 0xff, 0x8f], vec![0x80, 0x80, 0x80, 0x80, 0x80, 0x01]]), 1 => proptest::collection::vec(0x80u8..=0xff, 1..8)], proptest::sample::select(vec![300u16, 600, 1500])).prop_map(|(pattern, kib)| Mutn::Flood { pattern, kib }),
        ];
        (
            proptest::sample::select(vec![64i32, 64, 1000, 10_000, 10_000, 1 << 17, 1 << 20]),
            prop_oneof![1 => Just(1i32), 2 => Just(2i32), 2 => Just(3i32)],
            prop_oneof![1 => Just(None), 2 => Just(Some(b"s3cret".to_vec()))],
            any::<u16>(),
            mutation,
            prop_oneof![3 => Just("Alex".to_string()), 1 => gens::name()],
            any::<u64>(),
            prop_oneof![
                3 => Just("en_us".to_string()),
                2 => proptest::sample::select(vec!["", "_", "__", "_us", "en_", "de_DE_x_y", "\u{65e5}\u{672c}_jp", "\u{e9}_\u{e9}", "a\u{1f600}_b", "zz", "-", "en-us"]).prop_map(str::to_string),
                2 => "[a-z_\\x{80}-\\x{2fff}]{0,16}",
                1 => "\\PC{0,40}",
            ],
            prop_oneof![3 => Just(false), 1 => Just(true)],
        )
            .prop_map(|(max_len, intent, secret, at, mutation, name, select_seed, locale, to_the_end)| {
                // a share of cases plays the transcript to its last step (Client Information), where the locale is used
                let at = if to_the_end { u16::MAX } else { at };
                // with a 64-byte frame limit the RSA ciphertexts of the Encryption Response do not fit: keep login below it reachable
                let max_len = if max_len < 400 && intent != 1 { 400 } else { max_len };
                // a flood is judged against the allocation bound, which must stay below the flood's size
                let max_len = if matches!(mutation, Mutn::Flood { .. }) { max_len.min(1000) } else { max_len };
                Case { cfg: ConnCfg { secret, max_len, ..Default::default() }, intent, at, mutation, name, select_seed, locale }
            })
            .boxed()
    }
    fn cases(&self, tier: Tier) -> u64 {
        tier.pick(20_000, 1_000_000)
    }
    fn run(&self, case: &Case) -> (Verdict, CaseInfo) {
        let (out, o) = run_case(case);
        let mut info = CaseInfo::default();
        let cname = class_name(&case.mutation);
        info.class(format!("class:{cname}"));
        info.class(format!("max_len:{}", case.cfg.max_len));
        if o.reached {
            info.class(format!("step:{}", o.step_name));
            info.class(if o.encrypted { "after_encryption_switch" } else { "before_encryption_switch" });
        } else {
            info.class("mutated_frame_not_reached");
        }
        if o.reached && o.step_name == "ClientInformation" && case.locale != "en_us" {
            info.class(if case.locale.is_ascii() { "locale:unusual_ascii" } else { "locale:multi_byte" });
        }
        info.nontrivial = o.reached && (!matches!(case.mutation, Mutn::None) || (o.step_name == "ClientInformation" && case.locale != "en_us"));
        // (1) no panic
        if let sim::ServerEnd::Panicked { msg } = &out.end {
            let first = msg.lines().last().unwrap_or("").to_string();
            let sig = if msg.contains("capacity overflow") { "panic:capacity-overflow".to_string() } else if msg.contains("keeps reading after the end of stream") { "spins-after-eof".to_string() } else { format!("panic:{}", first.chars().take(40).collect::<String>()) };
            return (Verdict::Fail { sig, msg: format!("{cname} at step {} : handler panicked: {msg}", o.step_name) }, info);
        }
        // (2) returns after the end of stream
        if matches!(out.end, sim::ServerEnd::Hung) {
            return (Verdict::Fail { sig: "keeps-running-after-eof".into(), msg: format!("{cname} at step {}: the handler did not return within 2 s (virtual) after the client's end of stream", o.step_name) }, info);
        }
        // (3) memory in proportion to the configured maximum frame size
        let bound = alloc_bound(case.cfg.max_len);
        if out.max_alloc > bound {
            return (Verdict::Fail { sig: "allocation-out-of-proportion".into(), msg: format!("{cname} at step {}: largest single allocation while handling the connection = {} bytes, bound 8 x {} + 256 KiB = {bound}", o.step_name, out.max_alloc, case.cfg.max_len) }, info);
        }
        if !o.reached {
            return (Verdict::Pass, info);
        }
        // (4) refused before the body exists
        if let Some((done, pulled, prefix)) = o.refused_on_prefix {
            if !done {
                return (Verdict::Fail { sig: "illegal-length-not-refused-before-body".into(), msg: format!("{cname} at step {} (max {}): after the length prefix alone the handler was still waiting for the body", o.step_name, case.cfg.max_len) }, info);
            }
            if pulled > prefix {
                return (Verdict::Fail { sig: "body-pulled-before-refusal".into(), msg: format!("pulled {pulled} bytes, prefix has {prefix}") }, info);
            }
        }
        // (5) malformed by construction => error
        if o.must_err && out.returned_ok() {
            return (Verdict::Fail { sig: format!("malformed-input-accepted:{cname}"), msg: format!("{cname} at step {}: listen returned Ok", o.step_name) }, info);
        }
        if o.must_err {
            // a malformed frame is not answered: the connection just ends
            if let Some((t, p)) = out.cb.iter().find(|(t, _)| *t >= o.mutated_at) {
                return (Verdict::Fail { sig: format!("reply-to-malformed-input:{cname}"), msg: format!("{cname} at step {}: the malformed frame (handed over at {} ms) was followed by {} at {t} ms", o.step_name, o.mutated_at, p.kind()) }, info);
            }
            if out.stream_broken.is_some() || out.cb_leftover > 0 {
                return (Verdict::Fail { sig: format!("reply-to-malformed-input:{cname}"), msg: format!("{cname} at step {}: undecodable bytes were sent after the malformed frame ({:?}, {} stray bytes)", o.step_name, out.stream_broken, out.cb_leftover) }, info);
            }
            // and nothing is granted afterwards
            if out.cb.iter().any(|(_, p)| matches!(p, Pkt::CfgTransfer { .. })) {
                return (Verdict::Fail { sig: "transfer-after-malformed-input".into(), msg: format!("{cname} at step {}", o.step_name) }, info);
            }
        }
        (Verdict::Pass, info)
    }
    fn rule(&self) -> String {
        "a well-formed status/login/transfer transcript played to a generated step whose frame is mutated (outer and inner length prefixes: MIN, -1, 0, len-1, len+1, max, max+1, 2max, 2^31-1, arbitrary; truncation at every offset; over-long VarInts of 2-10 groups in length/id/field; invalid UTF-8; out-of-range ordinals; garbage RSA ciphertexts; secrets of the wrong size; verify tokens of the wrong length; random bytes; frame followed by random bytes; floods of unterminated length prefixes), before or after the encryption switch, the configuration phase including a Resource Pack Response (ordinal) and Client Information whose locale (multi-byte characters, separators only, up to 40 characters) is localised by the real fixed localization adapter, max_packet_length in {64,400,1000,10000,2^17,2^20}; then end of stream. non-trivial = the mutated frame was reached and the class is not 'unmutated'; distinct = distinct case".into()
    }
    fn assumptions(&self) -> Vec<String> {
        vec![
            "allocation meter: largest single alloc/realloc request made on the simulator thread while the connection handler's task is being polled; bound 8 x max_packet_length + 256 KiB (well-formed traffic stays below 4 x max + 8 KiB)".into(),
            "'refused before its body is buffered' is decided behaviourally: the body bytes exist only 1 ms (virtual) after the length prefix and listen must already have returned by then, having pulled nothing beyond the prefix".into(),
            "for random bytes, over-long VarInts and off-by-one lengths only 'no panic, bounded memory, returns after end of stream' is asserted".into(),
            "a handler that spins without awaiting would hang the case; the transport panics after 10000 reads at EOF so that this shows as a violation rather than a hang".into(),
        ]
    }
    fn sample(&self, case: &Case) -> Value {
        json!({"max_len": case.cfg.max_len, "intent": case.intent, "at": case.at, "mutation": case.mutation})
    }
}
