//! C14 — Operator-configured limits and the connection deadline govern every connection.
//!
//! (a) `passage::start(Config)` runs in-process with a generated configuration (maximum frame length,
//! cookie expiry, secret, timeout); concurrent clients send frames of declared length around the
//! configured maximum, present cookies whose age lies between the configured and the default expiry
//! (or that are signed with another secret), or misbehave (silent, one byte at a time, stop after a
//! protocol step, garbage). (b) the `Listener` with a sub-second connection timeout and a discovery
//! that never completes holds silent and keep-alive-echoing clients. Oracle: a frame is accepted iff
//! its declared length <= the configured maximum; should_authenticate reflects the configured expiry
//! and secret; the server closes the socket no later than the timeout (+ slack) after connect.

use crate::cookie::{self, CookieSpec, Identity, Mutation};
use crate::net::{self, ListenerCfg, NetClient, NetScript};
use crate::refcodec::{self as rc, Pkt};
use crate::runner::{CaseInfo, Check, Stats, Tier, Verdict};
use crate::sim;
use proptest::prelude::*;
use serde::{Deserialize, Serialize};
use serde_json::json;
use std::sync::atomic::{AtomicU64, Ordering};
use std::time::{Duration, Instant};

#[derive(Clone, Debug, Serialize, Deserialize, PartialEq)]
pub enum FrameLen {
    MaxMinusOne,
    Max,
    MaxPlusOne,
    TwiceMax,
    /// the built-in default (10000) and its neighbour, relevant when the configured maximum differs
    Default,
    DefaultPlusOne,
    Small,
    /// after a status request: a ping whose length prefix declares 2^21 + 9 (its low 21 bits say 9)
    AliasedPing,
    /// a five-byte length prefix whose last byte still has the continuation bit set, followed by a stream of bytes
    OverlongPrefixFlood(u8),
}

#[derive(Clone, Debug, Serialize, Deserialize, PartialEq)]
pub enum Behaviour {
    Silent,
    /// a handshake, one byte every 50 ms
    Dribble,
    /// stop after this many protocol steps of a login
    StopAfter(u8),
    Garbage,
    /// completes a status exchange (request, ping) and then keeps its socket open without closing
    FinishThenLinger,
}

#[derive(Clone, Debug, Serialize, Deserialize, PartialEq)]
pub enum Scn {
    Frame(FrameLen),
    /// age relative to the configured expiry: true = inside (expiry - margin), false = outside (expiry + margin)
    Cookie { inside: bool, other_secret: bool },
    /// a cookie that is one second inside the expiry when the client connects, presented two seconds later
    StallThenCookie,
    /// a full login, then the cookie the router itself issued is presented again: at once (accepted) or, with a
    /// configured expiry of a few seconds, once it is older than that (refused)
    IssuedCookie { wait_out: bool },
    Behave(Behaviour),
}

#[derive(Clone, Debug, Serialize, Deserialize)]
pub struct Case {
    pub max_len: u32,
    pub expiry: u64,
    pub timeout_s: u8,
    pub secret: String,
    pub scenarios: Vec<Scn>,
    /// part (b): connection timeout of the bare Listener in ms, and whether the client echoes keep-alives
    pub listener_timeout_ms: u16,
    /// part (c): a second instance with a huge status response and a client that does not read it
    #[serde(default)]
    pub unread_response: bool,
    /// the instance is a child process that reads this configuration through the documented layers
    /// (configuration file, auth secret file, environment) instead of an in-process passage::start
    #[serde(default)]
    pub layers: Option<crate::layers::LayerPlan>,
    /// the operator configured no secret at all: no authentication cookie is requested, issued or accepted
    #[serde(default)]
    pub no_secret: bool,
}

pub struct C14;

static STARTED: AtomicU64 = AtomicU64::new(0);
static LAYERED: AtomicU64 = AtomicU64::new(0);

/// a running instance: in-process (stopped by the SIGINT at the end of the run) or a child (stopped when dropped)
struct Instance {
    port: u16,
    _child: Option<crate::layers::Layered>,
    how: String,
}

fn start_passage(case: &Case) -> Result<Instance, String> {
    start_passage_with(case, None)
}

fn start_passage_with(case: &Case, favicon: Option<String>) -> Result<Instance, String> {
    let port = net::free_port();
    let mut cfg = json!({
        "address": format!("127.0.0.1:{port}"),
        "timeout": case.timeout_s,
        "max_packet_length": case.max_len,
        "auth_cookie_expiry": case.expiry,
        "auth_secret": case.secret,
        "adapters": {
            "discovery": {"fixed": {"targets": [{"identifier": "only", "address": "10.1.2.3:25565", "meta": {}}]}},
            "filter": [],
            "strategy": "any",
            "authentication": {"fixed": {"profile": {"id": "11111111-2222-3333-4444-555555555555", "name": "FixedUser", "properties": []}}},
        }
    });
    if let Some(f) = favicon {
        cfg["adapters"]["status"] = json!({"fixed": {"name": "big", "favicon": f}});
    }
    if case.no_secret {
        cfg.as_object_mut().unwrap().remove("auth_secret");
    }
    if let Some(plan) = &case.layers {
        let l = crate::layers::start(&cfg, plan)?;
        LAYERED.fetch_add(1, Ordering::Relaxed);
        let how = format!("child process, configuration through layers: {}", l.description);
        return Ok(Instance { port, _child: Some(l), how });
    }
    let config: passage::config::Config = serde_json::from_value(cfg).expect("configuration value");
    STARTED.fetch_add(1, Ordering::Relaxed);
    std::thread::Builder::new()
        .name(format!("passage-{port}"))
        .spawn(move || {
            let rt = tokio::runtime::Builder::new_multi_thread().worker_threads(2).enable_all().build().expect("rt");
            let r = rt.block_on(passage::start(config));
            if let Err(e) = r {
                eprintln!("passage::start on port {port} failed: {e}");
            }
        })
        .expect("spawn");
    net::wait_accepting(port);
    Ok(Instance { port, _child: None, how: "in-process passage::start".into() })
}

/// a handshake frame (next state = status) whose declared length is exactly `l`
fn handshake_of_len(l: usize) -> Option<Vec<u8>> {
    // inner = id(1) + varint(770)=2 + varint(hostlen) + host + port(2) + next(1)
    for vl in 1..=3usize {
        let fixed = 6 + vl;
        if l < fixed {
            continue;
        }
        let hostlen = l - fixed;
        if rc::varint_bytes(hostlen as i32).len() == vl {
            let p = Pkt::Handshake { protocol: 770, host: "a".repeat(hostlen), port: 25565, next: 1 };
            let f = p.frame();
            let mut r = rc::R::new(&f);
            if r.varint().ok()? as usize == l {
                return Some(f);
            }
        }
    }
    None
}

const SLACK: Duration = Duration::from_millis(1500);

fn run_scenario(case: &Case, port: u16, scn: &Scn) -> Result<(), (String, String)> {
    let timeout = Duration::from_secs(u64::from(case.timeout_s));
    let m = case.max_len as usize;
    match scn {
        Scn::Frame(FrameLen::AliasedPing) => {
            let mut c = NetClient::connect(port).map_err(|e| ("inconclusive".to_string(), e.to_string()))?;
            c.phase = rc::Phase::Status;
            let _ = c.send(&Pkt::Handshake { protocol: 770, host: "alias.example.org".into(), port: 25565, next: 1 });
            let _ = c.send(&Pkt::StatusRequest);
            match c.recv(timeout + SLACK) {
                Ok(Pkt::StatusResponse { .. }) => {}
                other => return Err(("inconclusive".into(), format!("no status response: {other:?}"))),
            }
            let before = c.received;
            let mut raw = rc::varint_bytes((1 << 21) + 9);
            raw.extend_from_slice(&[0x11, 0x22, 0x33, 0x44, 0x55, 0x66, 0x77, 0x88]);
            let _ = c.write_raw(&raw);
            let r = c.recv(timeout + SLACK);
            if c.received > before {
                return Err(("frame-above-configured-maximum-accepted".into(), format!("configured max_packet_length {m}: a frame declaring 2^21+9 bytes was answered ({r:?})")));
            }
            Ok(())
        }
        Scn::Frame(FrameLen::OverlongPrefixFlood(k)) => {
            // no length is legal here (negative, zero or > 2^21): the frame must be refused at once, not when the
            // connection deadline strikes
            if case.timeout_s < 2 {
                return Ok(());
            }
            let prefix: [u8; 5] = [[0xff, 0xff, 0xff, 0xff, 0xff], [0xff, 0xff, 0xff, 0xff, 0x87], [0x80, 0x80, 0x80, 0x80, 0x80], [0x81, 0x80, 0x80, 0x80, 0xf8]][usize::from(*k) % 4];
            let mut c = NetClient::connect(port).map_err(|e| ("inconclusive".to_string(), e.to_string()))?;
            let t0 = Instant::now();
            let _ = c.write_raw(&prefix);
            let _ = c.stream.set_write_timeout(Some(Duration::from_millis(200)));
            let junk = vec![0xffu8; 64 * 1024];
            let mut closed_after = None;
            while t0.elapsed() < Duration::from_millis(900) {
                if c.write_raw(&junk).is_err() {
                    closed_after = Some(t0.elapsed());
                    break;
                }
                std::thread::sleep(Duration::from_millis(5));
            }
            if closed_after.is_none() {
                closed_after = c.wait_closed(Duration::from_millis(100)).map(|_| t0.elapsed());
            }
            match closed_after {
                Some(d) if d <= Duration::from_millis(900) => Ok(()),
                _ => Err(("illegal-length-prefix-not-refused".into(), format!("configured max_packet_length {m}: after the length prefix {:02x?} the server kept receiving for more than 0.9 s (timeout {} s)", prefix, case.timeout_s))),
            }
        }
        Scn::StallThenCookie => {
            if m < 600 || case.timeout_s < 3 || case.expiry < 30 || case.no_secret {
                return Ok(());
            }
            let mut c = NetClient::connect(port).map_err(|e| ("inconclusive".to_string(), e.to_string()))?;
            let me = c.local_addr();
            let now0 = cookie::now_secs();
            let spec = CookieSpec {
                age: case.expiry as i64 - 1,
                addr: me.to_string(),
                identity: Identity { name: "CookieUser".into(), uuid: uuid::Uuid::from_u128(0xC14), properties: vec![] },
                target: None,
                other_secret: None,
                mutation: Mutation::None,
            };
            let presented = cookie::build(&spec, Some(case.secret.as_bytes()), now0);
            let io = |r: std::io::Result<()>| r.map_err(|e| ("inconclusive".to_string(), e.to_string()));
            io(c.send(&Pkt::Handshake { protocol: 770, host: "stall.example.org".into(), port: 25565, next: 3 }))?;
            io(c.send(&Pkt::LoginStart { name: "Claimed".into(), uuid: uuid::Uuid::from_u128(0x4e45) }))?;
            loop {
                match c.recv(timeout) {
                    Ok(Pkt::LoginCookieRequest { key }) if key == cookie::AUTH_KEY => {
                        // the cookie is still valid now; present it once it is not
                        while cookie::now_secs() < now0 + 2 {
                            std::thread::sleep(Duration::from_millis(50));
                        }
                        std::thread::sleep(Duration::from_millis(100));
                        io(c.send(&Pkt::LoginCookieResponse { key, payload: Some(presented.clone()) }))?;
                    }
                    Ok(Pkt::LoginCookieRequest { key }) => io(c.send(&Pkt::LoginCookieResponse { key, payload: None }))?,
                    Ok(Pkt::EncryptionRequest { should_authenticate, .. }) => {
                        if !should_authenticate {
                            return Err(("cookie-older-than-configured-expiry-accepted".into(), format!("configured expiry {} s: a cookie that was {} s old at connect and was presented {} s later was accepted", case.expiry, case.expiry - 1, cookie::now_secs() - now0)));
                        }
                        return Ok(());
                    }
                    other => return Err(("inconclusive".into(), format!("stalled login: {other:?}"))),
                }
            }
        }
        Scn::IssuedCookie { wait_out } => {
            if m < 600 || case.timeout_s < 2 || (*wait_out && case.expiry > 3) {
                return Ok(());
            }
            let inc = |e: String| ("inconclusive".to_string(), e);
            let mut c = NetClient::connect(port).map_err(|e| inc(e.to_string()))?;
            c.login_until_success(2, "Claimed", None, timeout + SLACK).map_err(|e| inc(format!("first login: {e:?}")))?;
            let _ = c.send(&Pkt::LoginAck);
            let _ = c.send(&sim::client_information("en_us"));
            let mut issued = None;
            let t_issue = Instant::now();
            loop {
                match c.recv(timeout + SLACK) {
                    Ok(Pkt::CfgStoreCookie { key, payload }) if key == cookie::AUTH_KEY => issued = Some(payload),
                    Ok(Pkt::CfgStoreCookie { .. }) => {}
                    Ok(Pkt::CfgKeepAliveCb { id }) => {
                        let _ = c.send(&Pkt::CfgKeepAliveSb { id });
                    }
                    Ok(Pkt::CfgTransfer { .. }) => break,
                    other => return Err(inc(format!("first login did not reach the Transfer: {other:?}"))),
                }
            }
            if case.no_secret {
                return match issued {
                    Some(_) => Err(("auth-cookie-issued-although-no-secret-is-configured".into(), "a routed player was given an authentication cookie although no secret is configured".into())),
                    None => Ok(()),
                };
            }
            let Some(issued) = issued else { return Err(("no-auth-cookie-issued-although-secret-configured".into(), "a routed player was not given an authentication cookie although a secret is configured".into())) };
            drop(c);
            if *wait_out {
                std::thread::sleep(Duration::from_millis(case.expiry * 1000 + 1300));
            }
            let age = t_issue.elapsed();
            let mut c2 = NetClient::connect(port).map_err(|e| inc(e.to_string()))?;
            match c2.login_until_success(3, "Claimed", Some(issued), timeout + SLACK) {
                Ok((should_auth, _)) => {
                    if *wait_out && !should_auth {
                        return Err(("issued-cookie-older-than-configured-expiry-accepted".into(), format!("configured expiry {} s: the cookie the router issued was accepted again {age:?} after it was issued", case.expiry)));
                    }
                    if !*wait_out && should_auth && case.expiry >= 30 {
                        return Err(("issued-cookie-within-configured-expiry-refused".into(), format!("configured expiry {} s: the cookie the router issued was refused {age:?} after it was issued", case.expiry)));
                    }
                    Ok(())
                }
                Err(e) => Err(inc(format!("second login failed: {e:?}"))),
            }
        }
        Scn::Frame(fl) => {
            let l = match fl {
                FrameLen::MaxMinusOne => m - 1,
                FrameLen::Max => m,
                FrameLen::MaxPlusOne => m + 1,
                FrameLen::TwiceMax => (2 * m).min((1 << 21) + 10),
                FrameLen::Default => 10_000,
                FrameLen::DefaultPlusOne => 10_001,
                FrameLen::Small => 40,
                FrameLen::AliasedPing | FrameLen::OverlongPrefixFlood(_) => unreachable!(),
            };
            let Some(frame) = handshake_of_len(l) else { return Ok(()) };
            let mut c = NetClient::connect(port).map_err(|e| ("inconclusive".to_string(), e.to_string()))?;
            c.phase = rc::Phase::Status;
            let _ = c.write_raw(&frame);
            let _ = c.send(&Pkt::StatusRequest);
            let r = c.recv(timeout + SLACK);
            let served = matches!(r, Ok(Pkt::StatusResponse { .. }));
            if l <= m && !served {
                return Err(("frame-within-configured-maximum-refused".into(), format!("configured max_packet_length {m}: a frame of declared length {l} was not served ({r:?})")));
            }
            if l > m && (served || c.received > 0) {
                return Err(("frame-above-configured-maximum-accepted".into(), format!("configured max_packet_length {m}: a frame of declared length {l} was answered ({} bytes)", c.received)));
            }
            Ok(())
        }
        Scn::Cookie { inside, other_secret } => {
            // a login does not fit into very small frames (the Encryption Response has 261 bytes); expiries of a few
            // seconds leave no margin for crafted ages (they are exercised with issued cookies)
            if m < 600 || case.expiry < 30 {
                return Ok(());
            }
            let margin = (case.expiry / 10).clamp(3, 3600);
            let age = if *inside { case.expiry.saturating_sub(margin) as i64 } else { (case.expiry + margin) as i64 };
            let mut c = NetClient::connect(port).map_err(|e| ("inconclusive".to_string(), e.to_string()))?;
            let me = c.local_addr();
            let spec = CookieSpec {
                age,
                addr: me.to_string(),
                identity: Identity { name: "CookieUser".into(), uuid: uuid::Uuid::from_u128(0xC14), properties: vec![] },
                target: None,
                other_secret: other_secret.then(|| b"another secret".to_vec()),
                mutation: Mutation::None,
            };
            // without a configured secret the cookie is tagged under the empty key (or under some other key)
            let spec = if case.no_secret && !*other_secret { CookieSpec { other_secret: Some(Vec::new()), ..spec } } else { spec };
            let presented = cookie::build(&spec, Some(case.secret.as_bytes()), cookie::now_secs());
            let expect_accept = *inside && !*other_secret && case.expiry >= margin && !case.no_secret;
            match c.login_until_success(3, "Claimed", Some(presented), timeout + SLACK) {
                Ok((should_auth, name)) => {
                    if expect_accept && should_auth {
                        return Err(("cookie-within-configured-expiry-refused".into(), format!("configured expiry {} s, secret configured: a correctly signed cookie of age {age} s was not accepted (should_authenticate = true)", case.expiry)));
                    }
                    if !expect_accept && !should_auth {
                        let sig = if case.no_secret { "cookie-accepted-although-no-secret-is-configured" } else if *other_secret { "cookie-under-other-secret-accepted" } else { "cookie-older-than-configured-expiry-accepted" };
                        return Err((sig.into(), format!("configured expiry {} s: cookie of age {age} s (other secret: {other_secret}) was accepted; logged in as {name}", case.expiry)));
                    }
                    Ok(())
                }
                Err(e) => Err(("inconclusive".into(), format!("login failed: {e:?}"))),
            }
        }
        Scn::Behave(b) => {
            let mut c = NetClient::connect(port).map_err(|e| ("inconclusive".to_string(), e.to_string()))?;
            let t0 = Instant::now();
            match b {
                Behaviour::Silent => {}
                Behaviour::Garbage => {
                    let _ = c.write_raw(&[0x05, 0x7f, 0x01, 0x02]);
                }
                Behaviour::FinishThenLinger => {
                    // the exchange is over within milliseconds; the server closes at once, and certainly by the deadline.
                    // Its FIN alone proves nothing (it may still hold the socket and read): after the deadline the
                    // client writes again, and a server that has let go of the connection answers with a reset
                    if c.status_exchange("linger.example.org", timeout).is_err() {
                        return Err(("inconclusive".into(), "status exchange failed".into()));
                    }
                    let wait = (timeout + SLACK).saturating_sub(t0.elapsed());
                    std::thread::sleep(wait);
                    let mut reset = false;
                    for _ in 0..4 {
                        if c.write_raw(&[0x01, 0x00]).is_err() {
                            reset = true;
                            break;
                        }
                        std::thread::sleep(Duration::from_millis(60));
                    }
                    if !reset {
                        return Err(("connection-held-after-completion-past-the-deadline".into(), format!("timeout {timeout:?}: {:?} after connecting, a client that had finished its status exchange and kept its socket open could still write to the server without a reset", t0.elapsed())));
                    }
                    return Ok(());
                }
                Behaviour::Dribble => {
                    let f = Pkt::Handshake { protocol: 770, host: "slow.example.org".into(), port: 25565, next: 2 }.frame();
                    for b in f.iter().cycle().take(400) {
                        if c.write_raw(&[*b]).is_err() || t0.elapsed() > timeout + SLACK + Duration::from_secs(1) {
                            break;
                        }
                        std::thread::sleep(Duration::from_millis(50));
                        // only the length prefix and the id are ever completed: stay inside the first frame
                        if t0.elapsed() > timeout + SLACK + Duration::from_secs(1) {
                            break;
                        }
                    }
                }
                Behaviour::StopAfter(n) => {
                    let steps = usize::from(*n % 5);
                    let _ = c.send(&Pkt::Handshake { protocol: 770, host: "h".into(), port: 25565, next: 2 });
                    if steps >= 1 {
                        let _ = c.send(&Pkt::LoginStart { name: "Stopper".into(), uuid: uuid::Uuid::from_u128(14) });
                    }
                    if steps >= 2 {
                        if let Ok(Pkt::LoginCookieRequest { key }) = c.recv(Duration::from_millis(500)) {
                            let _ = c.send(&Pkt::LoginCookieResponse { key, payload: None });
                        }
                    }
                    if steps >= 3 {
                        let _ = c.recv(Duration::from_millis(500));
                    }
                }
            }
            let remaining = (timeout + SLACK + Duration::from_secs(2)).saturating_sub(t0.elapsed());
            match c.wait_closed(remaining) {
                Some((after, _)) if after <= timeout + SLACK => Ok(()),
                Some((after, _)) => Err(("closed-late".into(), format!("{b:?}: the server closed the connection {after:?} after connect, configured timeout {timeout:?}"))),
                None => Err(("not-closed-after-timeout".into(), format!("{b:?}: the connection was still open {:?} after connect, configured timeout {timeout:?}", t0.elapsed()))),
            }
        }
    }
}

fn listener_part(case: &Case) -> Result<(), (String, String)> {
    // (b) the bare Listener with a sub-second deadline and a discovery that never completes
    let to = Duration::from_millis(u64::from(case.listener_timeout_ms));
    let cfg = ListenerCfg { timeout: to, ..Default::default() };
    let run = net::start_listener(&cfg, NetScript { discovery_ms: None, ..Default::default() }, 2);
    let r = (|| {
        let mut silent = NetClient::connect(run.port).map_err(|e| ("inconclusive".to_string(), e.to_string()))?;
        let mut waiting = NetClient::connect(run.port).map_err(|e| ("inconclusive".to_string(), e.to_string()))?;
        waiting.login_until_success(2, "Waiter", None, Duration::from_secs(3)).map_err(|e| ("inconclusive".to_string(), format!("{e:?}")))?;
        let _ = waiting.send(&Pkt::LoginAck);
        let _ = waiting.send(&sim::client_information("en_us"));
        for (name, c) in [("silent", &mut silent), ("logged in, routing never completes", &mut waiting)] {
            match c.wait_closed(to + SLACK + Duration::from_secs(1)) {
                Some((after, _)) if after <= to + SLACK => {}
                Some((after, _)) => return Err(("closed-late".into(), format!("Listener with connection timeout {to:?}: client ({name}) closed after {after:?}"))),
                None => return Err(("not-closed-after-timeout".into(), format!("Listener with connection timeout {to:?}: client ({name}) still open after {:?}", c.connected_at.elapsed()))),
            }
        }
        Ok(())
    })();
    run.shutdown();
    r?;
    // (b') the same deadline with the PROXY protocol switched on: a client that withholds its PROXY header, or
    // stalls inside it, is closed by the configured timeout as well (the deadline is far below the built-in default)
    let cfg = ListenerCfg { timeout: to, proxy: Some((true, true)), ..Default::default() };
    let run = net::start_listener(&cfg, NetScript { discovery_ms: None, ..Default::default() }, 2);
    let r = (|| {
        let v2 = net::proxy_v2("192.168.0.1:40000".parse().expect("addr"), "10.0.0.1:25565".parse().expect("addr"));
        let stalls: [(&str, Vec<u8>); 3] = [("no PROXY header at all", Vec::new()), ("stalls inside a v1 PROXY header", b"PROXY TCP4 192.168.0.1 ".to_vec()), ("stalls inside a v2 PROXY header", v2[..v2.len().min(14)].to_vec())];
        let mut clients = Vec::new();
        for (name, bytes) in stalls {
            let mut c = NetClient::connect(run.port).map_err(|e| ("inconclusive".to_string(), e.to_string()))?;
            if !bytes.is_empty() {
                let _ = c.write_raw(&bytes);
            }
            clients.push((name, c));
        }
        for (name, c) in clients.iter_mut() {
            match c.wait_closed((to + SLACK + Duration::from_secs(1)).saturating_sub(c.connected_at.elapsed())) {
                Some((after, _)) if after <= to + SLACK => {}
                Some((after, _)) => return Err(("closed-late".into(), format!("Listener with PROXY protocol and connection timeout {to:?}: client ({name}) closed after {after:?}"))),
                None => return Err(("not-closed-after-timeout".into(), format!("Listener with PROXY protocol and connection timeout {to:?}: client ({name}) still open after {:?}", c.connected_at.elapsed()))),
            }
        }
        Ok(())
    })();
    run.shutdown();
    r
}

/// (c) a status response of 24 MiB requested by a client that does not read it: the handler is blocked in a
/// write when the deadline passes, and the server must still close its end of the connection by then. The
/// server's end is observed directly (state of its socket in /proc/net/tcp), so the verdict does not depend on
/// how much the socket buffers of this machine absorb. A control client that *does* read first shows that the
/// instance produces the response promptly here; otherwise the scenario is inconclusive.
fn unread_response_part(case: &Case) -> Result<(), (String, String)> {
    const SIZE: usize = 24 << 20;
    let inc = |e: String| ("inconclusive".to_string(), e);
    let inst = start_passage_with(case, Some("x".repeat(SIZE))).map_err(inc)?;
    let port = inst.port;
    let timeout = Duration::from_secs(u64::from(case.timeout_s));
    use std::io::Read;
    // control: a reading client gets the whole response quickly
    {
        let mut c = NetClient::connect(port).map_err(|e| inc(e.to_string()))?;
        let t0 = Instant::now();
        let _ = c.send(&Pkt::Handshake { protocol: 770, host: "big.example.org".into(), port: 25565, next: 1 });
        let _ = c.send(&Pkt::StatusRequest);
        let _ = c.stream.set_read_timeout(Some(Duration::from_millis(900)));
        let mut buf = vec![0u8; 1 << 20];
        let mut total = 0usize;
        while total < SIZE {
            match c.stream.read(&mut buf) {
                Ok(0) | Err(_) => break,
                Ok(n) => total += n,
            }
            if t0.elapsed() > Duration::from_millis(900) {
                break;
            }
        }
        if total < SIZE {
            return Err(inc(format!("control: a reading client received only {total} of {SIZE} bytes within 0.9 s (machine too slow for this scenario)")));
        }
    }
    let mut c = NetClient::connect(port).map_err(|e| inc(e.to_string()))?;
    let me = c.local_addr().port();
    let _ = c.send(&Pkt::Handshake { protocol: 770, host: "big.example.org".into(), port: 25565, next: 1 });
    let _ = c.send(&Pkt::StatusRequest);
    if net::server_side_state(port, me) != Some(1) {
        return Err(inc("the server's end of the connection is not visible in /proc/net/tcp".into()));
    }
    // do not read; watch the server's end until the deadline (+ slack) has passed
    let t0 = c.connected_at;
    let mut closed_after = None;
    while t0.elapsed() < timeout + SLACK {
        if net::server_side_state(port, me) != Some(1) {
            closed_after = Some(t0.elapsed());
            break;
        }
        std::thread::sleep(Duration::from_millis(20));
    }
    if closed_after.is_none() {
        // how much did it serve meanwhile?
        let _ = c.stream.set_read_timeout(Some(Duration::from_millis(200)));
        let mut buf = vec![0u8; 1 << 20];
        let mut total = 0usize;
        while let Ok(n) = c.stream.read(&mut buf) {
            if n == 0 {
                break;
            }
            total += n;
        }
        return Err(("served-past-the-deadline".into(), format!("timeout {timeout:?}: {:?} after connecting, the server's end of the connection of a client that does not read its {SIZE}-byte status response is still established ({total} bytes were readable)", t0.elapsed())));
    }
    Ok(())
}

fn decide(case: &Case, info: &mut CaseInfo) -> Verdict {
    let inst = match start_passage(case).or_else(|_| start_passage(case)) {
        Ok(i) => i,
        // an instance that does not start handles no connection: nothing to decide
        Err(e) => return Verdict::Inconclusive(format!("instance did not start: {e} (two attempts)")),
    };
    let port = inst.port;
    // real-time verdicts need a responsive machine: a plain status exchange normally takes a millisecond or two
    let probe = (0..2)
        .filter_map(|_| {
            let mut c = NetClient::connect(port).ok()?;
            let t0 = Instant::now();
            c.status_exchange("probe.example.org", Duration::from_secs(2)).ok()?;
            Some(t0.elapsed())
        })
        .min();
    match probe {
        Some(d) if d <= Duration::from_millis(400) => {}
        other => return Verdict::Inconclusive(format!("the instance answers a plain status exchange in {other:?}: machine too loaded for real-time verdicts")),
    }
    if let Some(plan) = &case.layers {
        info.class("configuration_through_layers");
        info.class(format!("secret_layer:{:?}", plan.secret));
        info.class(format!("timeout_layer:{:?}", plan.timeout));
    }
    let results: Vec<(usize, Result<(), (String, String)>)> = std::thread::scope(|s| {
        let hs: Vec<_> = case.scenarios.iter().enumerate().map(|(i, scn)| s.spawn(move || (i, run_scenario(case, port, scn)))).collect();
        hs.into_iter().map(|h| h.join().expect("scenario thread")).collect()
    });
    for scn in &case.scenarios {
        match scn {
            Scn::Frame(FrameLen::MaxMinusOne | FrameLen::Max | FrameLen::MaxPlusOne) if case.max_len != 10_000 => {
                info.nontrivial = true;
                info.class("frame_within_1_of_configured_max");
            }
            Scn::IssuedCookie { wait_out } if case.max_len >= 600 && case.timeout_s >= 2 && (!*wait_out || case.expiry <= 3) => {
                info.nontrivial = true;
                info.class(if *wait_out { "issued_cookie_presented_after_the_configured_expiry" } else { "issued_cookie_presented_at_once" });
            }
            Scn::Cookie { inside, other_secret: false } if case.expiry >= 30 => {
                let margin = (case.expiry / 10).clamp(3, 3600);
                let age = if *inside { case.expiry.saturating_sub(margin) } else { case.expiry + margin };
                if (age < 21_600) != (age < case.expiry) || (age <= case.expiry) != (age <= 21_600) {
                    info.nontrivial = true;
                    info.class("cookie_age_between_configured_and_default_expiry");
                }
            }
            Scn::Behave(_) => {
                info.nontrivial = true;
                info.class("behaviour_outlives_timeout");
            }
            Scn::StallThenCookie if case.timeout_s >= 3 && case.max_len >= 600 => {
                info.nontrivial = true;
                info.class("cookie_expires_while_the_client_stalls");
            }
            Scn::Frame(FrameLen::AliasedPing) => {
                info.class("length_prefix_above_2^21");
            }
            _ => {}
        }
    }
    info.class(format!("max_len:{}", case.max_len));
    if case.no_secret {
        info.class("no_secret_configured");
    }
    if case.secret.trim() != case.secret {
        info.class("secret_with_surrounding_whitespace");
    }
    let mut inconclusive = None;
    for (i, r) in results {
        if let Err((sig, msg)) = r {
            if sig == "inconclusive" {
                inconclusive = Some(msg);
                continue;
            }
            // control: the same scenario once more, alone
            match run_scenario(case, port, &case.scenarios[i]) {
                Err((sig2, msg2)) if sig2 == sig => return Verdict::Fail { sig, msg: format!("scenario #{i} {:?}: {msg2} (confirmed by a second run; instance: {})", case.scenarios[i], inst.how) },
                _ => inconclusive = Some(format!("scenario #{i} failed once ({msg}) and passed when repeated alone")),
            }
        }
    }
    if case.unread_response {
        info.class("unread_huge_response_at_the_deadline");
        if let Err((sig, msg)) = unread_response_part(case) {
            if sig != "inconclusive" {
                if let Err((sig2, msg2)) = unread_response_part(case) {
                    if sig2 == sig {
                        return Verdict::Fail { sig, msg: format!("{msg2} (confirmed by a second run)") };
                    }
                }
            }
            inconclusive = Some(msg);
        }
    }
    if let Err((sig, msg)) = listener_part(case) {
        if sig != "inconclusive" {
            if let Err((sig2, msg2)) = listener_part(case) {
                if sig2 == sig {
                    return Verdict::Fail { sig, msg: format!("{msg2} (confirmed by a second run)") };
                }
            }
        }
        inconclusive = Some(msg);
    }
    match inconclusive {
        Some(m) => Verdict::Inconclusive(m),
        None => Verdict::Pass,
    }
}

impl Check for C14 {
    type Case = Case;
    fn id(&self) -> &'static str {
        "C14"
    }
    fn shards(&self, _tier: Tier) -> usize {
        8
    }
    fn max_shrink_iters(&self) -> u32 {
        10
    }
    fn strategy(&self, _tier: Tier) -> BoxedStrategy<Case> {
        let fl = prop_oneof![
            Just(FrameLen::MaxMinusOne),
            Just(FrameLen::Max),
            Just(FrameLen::MaxPlusOne),
            Just(FrameLen::TwiceMax),
            Just(FrameLen::Default),
            Just(FrameLen::DefaultPlusOne),
            Just(FrameLen::Small),
            Just(FrameLen::AliasedPing),
            any::<u8>().prop_map(FrameLen::OverlongPrefixFlood),
        ];
        let beh = prop_oneof![Just(Behaviour::Silent), Just(Behaviour::Dribble), any::<u8>().prop_map(Behaviour::StopAfter), Just(Behaviour::Garbage), Just(Behaviour::FinishThenLinger)];
        let scn = prop_oneof![
            4 => fl.prop_map(Scn::Frame),
            3 => (any::<bool>(), prop::bool::weighted(0.25)).prop_map(|(inside, other_secret)| Scn::Cookie { inside, other_secret }),
            2 => beh.prop_map(|b| Scn::Behave(b)),
            1 => Just(Scn::StallThenCookie),
            2 => any::<bool>().prop_map(|wait_out| Scn::IssuedCookie { wait_out }),
        ];
        (
            prop_oneof![3 => proptest::sample::select(vec![64u32, 100, 1000, 9_999, 10_001, 65_536, (1 << 21) - 1]), 1 => Just(10_000u32), 2 => 64u32..200_000],
            proptest::sample::select(vec![1u64, 2, 3, 30, 60, 600, 21_600, 100_000, 1_000_000]),
            1u8..=3,
            // mostly plain; sometimes with blanks or line breaks around it (they are part of the secret)
            prop_oneof![5 => "[a-zA-Z0-9]{4,24}".boxed(), 2 => ("[a-zA-Z0-9]{4,16}", proptest::sample::select(vec![(" ", ""), ("", " "), ("", "\n"), ("\t", "\t"), (" ", "\r\n")])).prop_map(|(s, (a, b))| format!("{a}{s}{b}")).boxed()],
            proptest::collection::vec(scn, 6..20),
            300u16..900,
            prop::bool::weighted(0.3),
            proptest::option::weighted(0.5, crate::layers::plan_strategy()),
            prop::bool::weighted(0.15),
        )
            .prop_map(|(mut max_len, mut expiry, timeout_s, secret, mut scenarios, listener_timeout_ms, unread_response, layers, no_secret)| {
                if no_secret {
                    // every such instance is asked to accept cookies under the empty key and under another key
                    max_len = max_len.max(700);
                    expiry = expiry.max(30);
                    scenarios.push(Scn::Cookie { inside: true, other_secret: false });
                    scenarios.push(Scn::Cookie { inside: true, other_secret: true });
                    scenarios.push(Scn::IssuedCookie { wait_out: false });
                }
                // an instance whose secret travels through the layers is always asked to validate a cookie with it
                // (a login needs frames of up to 261 bytes, crafted ages need an expiry with a margin)
                if layers.is_some() {
                    max_len = max_len.max(700);
                    expiry = expiry.max(30);
                    scenarios.push(Scn::Cookie { inside: true, other_secret: false });
                    scenarios.push(Scn::Cookie { inside: true, other_secret: true });
                }
                Case { max_len, expiry, timeout_s, secret, scenarios, listener_timeout_ms, unread_response, layers, no_secret }
            })
            .boxed()
    }
    fn cases(&self, tier: Tier) -> u64 {
        tier.pick(24, 400)
    }
    fn run(&self, case: &Case) -> (Verdict, CaseInfo) {
        let mut info = CaseInfo::default();
        let v = decide(case, &mut info);
        (v, info)
    }
    fn finish(&self, stats: &Stats) {
        let n = STARTED.load(Ordering::Relaxed);
        stats.set_extra("passage_start_instances", json!(n));
        stats.set_extra("child_instances_configured_through_layers", json!(LAYERED.load(Ordering::Relaxed)));
        if n > 0 {
            // stop every in-process instance the way an operator does (ctrl-c); tokio's handler is installed
            unsafe {
                libc::kill(libc::getpid(), libc::SIGINT);
            }
            std::thread::sleep(Duration::from_millis(300));
        }
    }
    fn rule(&self) -> String {
        "per case one passage instance - in-process passage::start, or (half of the cases) a child process that reads the same settings through Config::read from a configuration file (json/yaml/yml/toml, CONFIG_FILE or default path), the auth secret file and environment variables (default or custom ENV_PREFIX) with decoy values in the lower layers - with generated max_packet_length (64 … 2^21-1), auth_cookie_expiry (30 s … 10^6 s), secret and timeout (1-2 s), and 6-19 concurrent client scenarios: a handshake frame of declared length M-1 / M / M+1 / 2M / 10000 / 10001 / 40 followed by a status request; a Transfer login presenting a correctly signed cookie whose age is inside or outside the configured expiry (margin 10 %), or signed with another secret; the cookie the router itself issued presented at once or after a configured expiry of 1-3 s; a cookie that expires while the client stalls; over-long and aliased length prefixes; a misbehaving client (silent, one byte per 50 ms, stops after 0-4 login steps, garbage). Plus the bare Listener with a 300-900 ms connection timeout and a discovery that never completes (silent client, logged-in client), and the same Listener with the PROXY protocol on (clients that send no PROXY header or stall inside a v1 / v2 header). non-trivial = a frame within 1 of a configured maximum other than 10000, a cookie age between the configured and the default expiry, or a behaviour that outlives the timeout; distinct = distinct case".into()
    }
    fn assumptions(&self) -> Vec<String> {
        vec![
            "real sockets and real time: close must happen within timeout + 1.5 s after connect; every failing scenario is repeated alone and only a confirmed failure is a violation, otherwise the case is inconclusive; a case whose instance needs more than 0.4 s for a plain status exchange is inconclusive as a whole".into(),
            "the unread-response scenario observes the server's end of the connection in /proc/net/tcp (it must have left ESTABLISHED by timeout + 1.5 s), after a control client that reads has received the whole 24 MiB within 0.9 s; nothing is concluded from how many bytes the socket buffers of the machine absorb".into(),
            "cookie ages keep a margin of 10 % (at least 3 s) from the configured expiry, so wall-clock progress cannot flip the expected answer".into(),
            "all passage::start instances of the run are stopped at the end by one SIGINT to the own process (tokio's ctrl-c handler is installed by then)".into(),
        ]
    }
}
