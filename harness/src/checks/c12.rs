//! C12 — Client-chosen names cannot alter the session server request.
//!
//! The real `MojangAdapter` talks (hook H1) to a loopback HTTP mock that records the raw request
//! line. Oracle: method GET, path exactly /session/minecraft/hasJoined, the query has exactly one
//! `username` that decodes to the claimed name and one `serverId` equal to the reference hash; the
//! adapter returns the mock's profile on 200 + valid JSON and an error otherwise.

use crate::gens;
use crate::mocks::{self, http::HttpMock, http::Reply};
use crate::refcodec::hexbytes;
use crate::refcrypto;
use crate::runner::{CaseInfo, Check, Tier, Verdict};
use passage_adapters::authentication::AuthenticationAdapter;
use passage_adapters_http::MojangAdapter;
use proptest::prelude::*;
use serde::{Deserialize, Serialize};
use serde_json::json;
use std::sync::OnceLock;

#[derive(Clone, Debug, Serialize, Deserialize, PartialEq)]
pub enum MockReply {
    Profile { dashed_uuid: bool, with_properties: bool },
    NoContent,
    Forbidden,
    ServerError,
    Garbage,
    /// 200 with a JSON object that names nobody: {} / an error object / id or name missing
    Nobody(u8),
    /// the first n requests are read and their connection is dropped without an answer; a later one gets 204
    Dropped(u8),
}

#[derive(Clone, Debug, Serialize, Deserialize)]
pub struct Case {
    pub name: String,
    pub server_id: String,
    #[serde(with = "hexbytes")]
    pub secret: Vec<u8>,
    #[serde(with = "hexbytes")]
    pub key: Vec<u8>,
    pub reply: MockReply,
}

pub struct C12;

pub(crate) fn mock() -> &'static HttpMock {
    static M: OnceLock<HttpMock> = OnceLock::new();
    M.get_or_init(|| {
        let m = mocks::rt().block_on(HttpMock::start());
        // hook H1: the adapter replaces the session server origin by this value
        unsafe { std::env::set_var("PASSAGE_VERIF_SESSION_BASE", format!("http://127.0.0.1:{}", m.port)) };
        m
    })
}

/// bodies of a 200 answer in which the session service vouches for nobody
pub fn nobody_body(k: u8) -> Vec<u8> {
    match k % 6 {
        0 => b"{}".to_vec(),
        1 => b"{\"error\":\"ForbiddenOperationException\",\"errorMessage\":\"Invalid token\"}".to_vec(),
        2 => b"{\"name\":\"Somebody\"}".to_vec(),
        3 => b"{\"id\":\"069a79f444e94726a5befca90e38aaf5\"}".to_vec(),
        4 => b"{\"id\":\"069a79f444e94726a5befca90e38aaf5\",\"properties\":[]}".to_vec(),
        _ => b"{\"name\":\"Somebody\",\"properties\":[],\"profileActions\":[]}".to_vec(),
    }
}

/// the adapter's verdict for a 200 answer with this body (true = it returned a profile)
pub fn verdict_for_body(body: Vec<u8>) -> Option<bool> {
    let m = mock();
    {
        let mut s = m.state.lock().unwrap();
        s.next = Some(Reply { status: 200, body, content_type: "application/json" });
    }
    let adapter = MojangAdapter::default();
    let client: std::net::SocketAddr = "192.0.2.1:5555".parse().unwrap();
    let id = uuid::Uuid::from_u128(1);
    let r = mocks::rt().block_on(async { tokio::time::timeout(std::time::Duration::from_secs(20), adapter.authenticate(&client, ("h", 25565), 770, ("Claimed", &id), &[1u8; 16], &[2u8; 8])).await }).ok()?;
    Some(r.is_ok())
}

/// application/x-www-form-urlencoded / percent decoding of one query component
fn form_decode(s: &str) -> Option<Vec<u8>> {
    let b = s.as_bytes();
    let mut out = Vec::with_capacity(b.len());
    let mut i = 0;
    while i < b.len() {
        match b[i] {
            b'+' => out.push(b' '),
            b'%' => {
                let h = (*b.get(i + 1)? as char).to_digit(16)?;
                let l = (*b.get(i + 2)? as char).to_digit(16)?;
                out.push((h * 16 + l) as u8);
                i += 2;
            }
            c => out.push(c),
        }
        i += 1;
    }
    Some(out)
}

const RESERVED: &[char] = &['&', '=', '#', '?', '%', '+', '/', '\\', ' ', '\r', '\n', '\0', ';', ':', '@', '\t'];

fn decide(case: &Case, info: &mut CaseInfo) -> Verdict {
    let m = mock();
    let uuid = uuid::Uuid::from_u128(0xABCDEF0123456789);
    let profile_json = json!({
        "id": if matches!(case.reply, MockReply::Profile { dashed_uuid: true, .. }) { uuid.hyphenated().to_string() } else { uuid.simple().to_string() },
        "name": "RealName",
        "properties": if matches!(case.reply, MockReply::Profile { with_properties: true, .. }) { json!([{"name": "textures", "value": "eyJ0ZXh0dXJlcyI6e319", "signature": "c2ln"}]) } else { json!([]) },
    });
    let reply = match &case.reply {
        MockReply::Profile { .. } => Reply { status: 200, body: serde_json::to_vec(&profile_json).unwrap(), content_type: "application/json" },
        MockReply::NoContent => Reply { status: 204, body: vec![], content_type: "application/json" },
        MockReply::Forbidden => Reply { status: 403, body: b"{\"error\":\"Forbidden\"}".to_vec(), content_type: "application/json" },
        MockReply::ServerError => Reply { status: 500, body: b"oops".to_vec(), content_type: "text/plain" },
        MockReply::Garbage => Reply { status: 200, body: b"<html>not json</html>".to_vec(), content_type: "text/html" },
        MockReply::Nobody(k) => Reply { status: 200, body: nobody_body(*k), content_type: "application/json" },
        MockReply::Dropped(_) => Reply { status: 204, body: vec![], content_type: "application/json" },
    };
    let before = {
        let mut s = m.state.lock().unwrap();
        s.next = Some(reply);
        s.drop_next = match &case.reply {
            MockReply::Dropped(n) => u32::from(*n % 3) + 1,
            _ => 0,
        };
        s.heads.len()
    };
    let adapter = MojangAdapter::default().with_server_id(case.server_id.clone());
    let client: std::net::SocketAddr = "192.0.2.1:5555".parse().unwrap();
    let claimed_uuid = uuid::Uuid::from_u128(77);
    let result = mocks::rt().block_on(async {
        tokio::time::timeout(std::time::Duration::from_secs(20), adapter.authenticate(&client, ("h", 25565), 770, (&case.name, &claimed_uuid), &case.secret, &case.key)).await
    });
    let Ok(result) = result else {
        return Verdict::Inconclusive("request to the loopback mock timed out".into());
    };
    let heads: Vec<Vec<u8>> = {
        let mut st = m.state.lock().unwrap();
        st.drop_next = 0;
        st.heads[before..].to_vec()
    };
    let reserved = case.name.chars().any(|c| RESERVED.contains(&c) || c.is_control());
    info.nontrivial = reserved;
    if reserved {
        info.class("name:reserved_characters");
    }
    if !case.name.is_ascii() {
        info.class("name:non_ascii");
    }
    info.class(format!("reply:{:?}", case.reply).split([' ', '{']).next().unwrap().to_string());
    if heads.is_empty() {
        // the request could not even be made (e.g. the URL did not parse): nothing was asked
        return match result {
            Err(_) => Verdict::Fail { sig: "request-not-made".into(), msg: format!("no request reached the session server for name {:?}: {:?}", case.name, result.err().map(|e| e.to_string())) },
            Ok(p) => Verdict::Fail { sig: "profile-without-request".into(), msg: format!("profile {p:?} without a request") },
        };
    }
    if heads.len() > 1 {
        info.class("several_requests_for_one_authentication");
    }
    // every request that was made for this authentication has to be exact (a repeated request is legal)
    for (ri, raw) in heads.iter().enumerate() {
        let head = String::from_utf8_lossy(raw).into_owned();
        let line = head.lines().next().unwrap_or("").to_string();
        let mut parts = line.split(' ');
        let (method, target, version) = (parts.next().unwrap_or(""), parts.next().unwrap_or(""), parts.next().unwrap_or(""));
        if method != "GET" || !version.starts_with("HTTP/1.") || parts.next().is_some() {
            return Verdict::Fail { sig: "request-line-malformed".into(), msg: format!("request #{ri} line {line:?}") };
        }
        let (path, query) = match target.split_once('?') {
            Some((p, q)) => (p, q),
            None => (target, ""),
        };
        if path != "/session/minecraft/hasJoined" {
            return Verdict::Fail { sig: "request-path-altered".into(), msg: format!("name {:?}: request #{ri} path {path:?}", case.name) };
        }
        let mut usernames = Vec::new();
        let mut server_ids = Vec::new();
        for pair in query.split('&') {
            let (k, v) = pair.split_once('=').unwrap_or((pair, ""));
            match form_decode(k).as_deref() {
                Some(b"username") => usernames.push(v),
                Some(b"serverId") => server_ids.push(v),
                other => {
                    return Verdict::Fail { sig: "request-parameter-added".into(), msg: format!("name {:?}: unexpected query parameter {:?} in request #{ri} {query:?}", case.name, other.map(|b| String::from_utf8_lossy(b).into_owned())) };
                }
            }
        }
        if usernames.len() != 1 || server_ids.len() != 1 {
            return Verdict::Fail { sig: "request-parameter-count".into(), msg: format!("name {:?}: {} username and {} serverId parameters in request #{ri} {query:?}", case.name, usernames.len(), server_ids.len()) };
        }
        if form_decode(usernames[0]).as_deref() != Some(case.name.as_bytes()) {
            return Verdict::Fail { sig: "username-altered".into(), msg: format!("claimed name {:?}, username parameter {:?} of request #{ri} decodes to {:?}", case.name, usernames[0], form_decode(usernames[0]).map(|b| String::from_utf8_lossy(&b).into_owned())) };
        }
        let expect_hash = refcrypto::mc_hash(&case.server_id, &case.secret, &case.key);
        if form_decode(server_ids[0]).as_deref() != Some(expect_hash.as_bytes()) {
            return Verdict::Fail { sig: "server-hash-altered".into(), msg: format!("serverId parameter {:?} of request #{ri}, reference hash {expect_hash:?}", server_ids[0]) };
        }
    }
    // the adapter's verdict follows the reply
    match (&case.reply, &result) {
        (MockReply::Profile { with_properties, .. }, Ok(p)) => {
            if p.id != uuid || p.name != "RealName" || p.properties.len() != usize::from(*with_properties) {
                return Verdict::Fail { sig: "profile-altered".into(), msg: format!("mock answered {profile_json}, adapter returned {p:?}") };
            }
        }
        (MockReply::Profile { .. }, Err(e)) => return Verdict::Fail { sig: "profile-rejected".into(), msg: format!("{e}") },
        (MockReply::Nobody(_), Ok(p)) => return Verdict::Fail { sig: "verdict-for-nobody".into(), msg: format!("the session service answered {:?} (no id / name), the adapter returned the profile {p:?}", String::from_utf8_lossy(&m.state.lock().unwrap().next.as_ref().map(|r| r.body.clone()).unwrap_or_default())) },
        (_, Ok(p)) => return Verdict::Fail { sig: "verdict-without-profile".into(), msg: format!("reply {:?} but the adapter returned {p:?}", case.reply) },
        (_, Err(_)) => {}
    }
    Verdict::Pass
}

/// Performs one authentication against the mock and returns the decoded `serverId` parameter of the request
/// (used by C11 for the hash "used towards the session service").
pub fn observed_server_id(server_id: &str, secret: &[u8], key: &[u8]) -> Option<String> {
    let m = mock();
    let before = {
        let mut s = m.state.lock().unwrap();
        s.next = Some(Reply { status: 204, body: vec![], content_type: "application/json" });
        s.heads.len()
    };
    let adapter = MojangAdapter::default().with_server_id(server_id.to_string());
    let client: std::net::SocketAddr = "192.0.2.1:5555".parse().unwrap();
    let id = uuid::Uuid::from_u128(11);
    let _ = mocks::rt().block_on(async { tokio::time::timeout(std::time::Duration::from_secs(20), adapter.authenticate(&client, ("h", 25565), 770, ("HashProbe", &id), secret, key)).await });
    let heads: Vec<Vec<u8>> = m.state.lock().unwrap().heads[before..].to_vec();
    let head = String::from_utf8_lossy(heads.first()?).into_owned();
    let target = head.lines().next()?.split(' ').nth(1)?.to_string();
    let query = target.split_once('?')?.1.to_string();
    for pair in query.split('&') {
        if let Some(v) = pair.strip_prefix("serverId=") {
            return form_decode(v).and_then(|b| String::from_utf8(b).ok());
        }
    }
    None
}

/// The same through a whole passage instance (child process, layered configuration) whose authentication adapter
/// is the Mojang adapter with this configured server id: a client logs in over TCP, the instance asks the mock.
/// Returns (serverId sent, Minecraft's hash of (configured id, the client's shared secret, the key of the
/// Encryption Request)).
pub fn observed_server_id_configured(server_id: &str, via_env: bool, plan: &crate::layers::LayerPlan) -> Result<(String, String), String> {
    use crate::net::NetClient;
    use crate::refcodec::Pkt;
    let m = mock();
    let before = {
        let mut s = m.state.lock().unwrap();
        s.next = Some(Reply { status: 204, body: vec![], content_type: "application/json" });
        s.heads.len()
    };
    let port = crate::net::free_port();
    let cfg = serde_json::json!({
        "address": format!("127.0.0.1:{port}"),
        "timeout": 5,
        "adapters": {
            "discovery": {"fixed": {"targets": []}},
            "filter": [],
            "strategy": "any",
            "authentication": {"mojang": {"server_id": server_id}},
        }
    });
    let pass = vec![("PASSAGE_VERIF_SESSION_BASE".to_string(), format!("http://127.0.0.1:{}", m.port))];
    let env_only: Vec<(Vec<&str>, &str, String)> = if via_env { vec![(vec!["adapters", "authentication", "mojang", "server_id"], "ADAPTERS_AUTHENTICATION_MOJANG_SERVERID", server_id.to_string())] } else { vec![] };
    let inst = crate::layers::start_with(&cfg, plan, &env_only, &pass)?;
    let mut c = NetClient::connect(inst.port).map_err(|e| e.to_string())?;
    c.phase = crate::refcodec::Phase::Login;
    let t = std::time::Duration::from_secs(4);
    c.send(&Pkt::Handshake { protocol: 770, host: "hash.example.org".into(), port: 25565, next: 2 }).map_err(|e| e.to_string())?;
    c.send(&Pkt::LoginStart { name: "HashProbe".into(), uuid: uuid::Uuid::from_u128(11) }).map_err(|e| e.to_string())?;
    let secret16: [u8; 16] = *b"c11-shared-secre";
    let key_der;
    loop {
        match c.recv(t) {
            Ok(Pkt::LoginCookieRequest { key }) => c.send(&Pkt::LoginCookieResponse { key, payload: None }).map_err(|e| e.to_string())?,
            Ok(Pkt::EncryptionRequest { public_key, verify_token, .. }) => {
                let key = crate::refcrypto::RsaPub::from_spki_der(&public_key).ok_or("public key")?;
                let pad = [0x21u8, 0x43, 0x65];
                c.send(&Pkt::EncryptionResponse { secret: key.encrypt_pkcs1(&secret16, &pad).unwrap(), token: key.encrypt_pkcs1(&verify_token, &pad).unwrap() }).map_err(|e| e.to_string())?;
                key_der = public_key;
                break;
            }
            other => return Err(format!("login: {other:?}")),
        }
    }
    // the instance asks the session service, is told "nobody" (204) and ends the connection
    let _ = c.wait_closed(t);
    drop(inst);
    let heads: Vec<Vec<u8>> = m.state.lock().unwrap().heads[before..].to_vec();
    let head = String::from_utf8_lossy(heads.first().ok_or("no request reached the mock")?).into_owned();
    let target = head.lines().next().and_then(|l| l.split(' ').nth(1)).ok_or("request line")?.to_string();
    let query = target.split_once('?').ok_or("query")?.1.to_string();
    let sent = query.split('&').find_map(|p| p.strip_prefix("serverId=")).and_then(form_decode).and_then(|b| String::from_utf8(b).ok()).ok_or("serverId parameter")?;
    Ok((sent, crate::refcrypto::mc_hash(server_id, &secret16, &key_der)))
}

impl Check for C12 {
    type Case = Case;
    fn id(&self) -> &'static str {
        "C12"
    }
    fn shards(&self, _tier: Tier) -> usize {
        1
    }
    fn strategy(&self, _tier: Tier) -> BoxedStrategy<Case> {
        let hostile = proptest::collection::vec(
            prop_oneof![
                3 => proptest::sample::select(RESERVED.to_vec()),
                3 => proptest::char::range('a', 'z'),
                1 => any::<char>(),
            ],
            0..40,
        )
        .prop_map(|v| v.into_iter().collect::<String>());
        let name = prop_oneof![
            3 => hostile,
            2 => gens::name(),
            1 => "\\PC{0,200}",
            1 => Just("Victim&serverId=-1234abcd".to_string()),
            1 => Just("x#".to_string()),
            1 => Just("a/../../b?c=d".to_string()),
            1 => Just("%26serverId%3Dabc".to_string()),
            1 => Just("name with spaces+plus".to_string()),
        ];
        let reply = prop_oneof![
            5 => (any::<bool>(), any::<bool>()).prop_map(|(dashed_uuid, with_properties)| MockReply::Profile { dashed_uuid, with_properties }),
            1 => Just(MockReply::NoContent),
            1 => Just(MockReply::Forbidden),
            1 => Just(MockReply::ServerError),
            1 => Just(MockReply::Garbage),
            2 => (0u8..6).prop_map(MockReply::Nobody),
            1 => (0u8..3).prop_map(MockReply::Dropped),
        ];
        (name, prop_oneof![3 => Just(String::new()), 1 => "[ -~]{0,20}", 1 => "\\PC{0,12}", 1 => "[a-z0-9.-]{21,64}", 1 => "[ -~]{1,40}"], proptest::collection::vec(any::<u8>(), 16..=16), proptest::collection::vec(any::<u8>(), 0..200), reply)
            .prop_map(|(name, server_id, secret, key, reply)| Case { name, server_id, secret, key, reply })
            .boxed()
    }
    fn cases(&self, tier: Tier) -> u64 {
        tier.pick(3_000, 100_000)
    }
    fn run(&self, case: &Case) -> (Verdict, CaseInfo) {
        let mut info = CaseInfo::default();
        let v = decide(case, &mut info);
        (v, info)
    }
    fn rule(&self) -> String {
        "claimed names: strings of reserved characters (& = # ? % + / \\ space CR LF NUL ; : @ TAB) mixed with letters and arbitrary chars, vanilla-like names, any Unicode up to 200 chars, literal injection attempts; server id empty / ASCII / Unicode; 16-byte secrets; key bytes 0-200; mock reply 200+profile / 204 / 403 / 500 / 200+garbage. non-trivial = the name contains at least one reserved or control character; distinct = distinct case".into()
    }
    fn assumptions(&self) -> Vec<String> {
        vec![
            "hook H1 (cargo feature verif-hooks, env PASSAGE_VERIF_SESSION_BASE) replaces only the origin https://sessionserver.mojang.com by the loopback mock; path and query are produced by the real code".into(),
            "the query is decoded as application/x-www-form-urlencoded ('+' = space, %XX), which is how the session server reads it".into(),
            "requests are made one at a time (single shard), so the recorded request belongs to the case".into(),
        ]
    }
}
