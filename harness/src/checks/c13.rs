//! C13 — Per-address rate limiting is bounded, fair between addresses and self-cleaning.
//!
//! Stateful: generated arrival histories (`Attempt(key)` / `Advance(dt)` with boundary-dense dt) are
//! interpreted against the real `RateLimiter` inside a paused tokio runtime. Deciding oracles are the
//! clauses of the property: (b1) at most `limit` admissions between two consecutive window starts,
//! (b2) at most 2·limit admissions in any interval of length `duration`, (b3) admission after >= 2·d
//! of silence, (c1) per-key projection replay (other keys and cleanup are invisible), (c2) removing a
//! rejected attempt changes nothing, (d) tracked keys ⊆ keys that attempted within the last 4·d
//! (hook). An exact-arithmetic reference limiter is compared for information only.

use crate::runner::{CaseInfo, Check, Tier, Verdict};
use passage_protocol::rate_limiter::RateLimiter;
use proptest::prelude::*;
use serde::{Deserialize, Serialize};
use serde_json::{Value, json};
use std::collections::{BTreeMap, BTreeSet};
use std::sync::atomic::{AtomicU64, Ordering};
use std::time::Duration;

#[derive(Clone, Debug, Serialize, Deserialize, PartialEq)]
pub enum Op {
    Attempt(u8),
    /// advance the clock: (numerator kind, value) resolved against the duration
    Advance(Dt),
}

#[derive(Clone, Debug, Serialize, Deserialize, PartialEq)]
pub enum Dt {
    Zero,
    Nanos(u32),
    /// k·d + offset ns (offset in -2..=2), k in 1..=5
    Multiple { k: u8, offset: i8 },
    /// a fraction of d (per mille)
    Fraction(u16),
}

#[derive(Clone, Debug, Serialize, Deserialize)]
pub struct Case {
    pub limit: u16,
    pub duration_ns: u64,
    pub ops: Vec<Op>,
}

pub struct C13;

pub static MODEL_DISAGREEMENTS: AtomicU64 = AtomicU64::new(0);
pub static MODEL_COMPARISONS: AtomicU64 = AtomicU64::new(0);

fn dt_ns(dt: &Dt, d: u64) -> u64 {
    match dt {
        Dt::Zero => 0,
        Dt::Nanos(n) => u64::from(*n),
        Dt::Multiple { k, offset } => (u64::from(*k) * d).saturating_add_signed(i64::from(*offset)),
        Dt::Fraction(pm) => (u128::from(d) * u128::from(*pm) / 1000) as u64,
    }
}

/// (absolute time ns, key) of every attempt
fn timeline(case: &Case) -> Vec<(u64, u8)> {
    let mut t = 0u64;
    let mut v = Vec::new();
    for op in &case.ops {
        match op {
            Op::Attempt(k) => v.push((t, *k)),
            Op::Advance(dt) => t = t.saturating_add(dt_ns(dt, case.duration_ns)),
        }
    }
    v
}

struct RunOut {
    decisions: Vec<bool>,
    /// after each attempt: tracked keys (from the hook)
    tracked: Vec<Vec<u8>>,
}

/// runs the attempts (absolute instants) against a fresh real limiter under a paused clock
fn run_real(limit: u16, d_ns: u64, attempts: &[(u64, u8)]) -> RunOut {
    let rt = tokio::runtime::Builder::new_current_thread().enable_time().start_paused(true).build().expect("rt");
    rt.block_on(async {
        let mut rl: RateLimiter<u8> = RateLimiter::new(Duration::from_nanos(d_ns), usize::from(limit));
        let mut now = 0u64;
        let mut decisions = Vec::with_capacity(attempts.len());
        let mut tracked = Vec::with_capacity(attempts.len());
        for (t, k) in attempts {
            if *t > now {
                tokio::time::advance(Duration::from_nanos(*t - now)).await;
                now = *t;
            }
            decisions.push(rl.enqueue(*k));
            let mut keys = rl.verif_tracked_keys();
            keys.sort_unstable();
            tracked.push(keys);
        }
        RunOut { decisions, tracked }
    })
}

/// exact-arithmetic sliding-window-counter (information only)
fn run_model(limit: u16, d: u64, attempts: &[(u64, u8)]) -> Vec<bool> {
    let mut st: BTreeMap<u8, (u64, u64, u64)> = BTreeMap::new();
    let mut out = Vec::new();
    for (now, k) in attempts {
        let e = st.entry(*k).or_insert((*now, 0, 0));
        let age = now - e.0;
        if age >= d {
            if age >= 2 * d {
                e.2 = 0;
            }
            e.0 = *now;
            e.1 = e.2;
            e.2 = 0;
        }
        let elapsed = u128::from(now - e.0);
        // last*(1 - elapsed/d) + current >= limit  <=>  last*(d-elapsed) + current*d >= limit*d
        let lhs = u128::from(e.1) * (u128::from(d) - elapsed) + u128::from(e.2) * u128::from(d);
        if lhs >= u128::from(limit) * u128::from(d) {
            out.push(false);
        } else {
            e.2 += 1;
            out.push(true);
        }
    }
    out
}

/// window starts of one key, from the attempt times alone: the first attempt, then each first attempt
/// at least `d` after the current window start
fn window_starts(times: &[u64], d: u64) -> Vec<usize> {
    let mut starts = Vec::new();
    let mut w: Option<u64> = None;
    for (i, t) in times.iter().enumerate() {
        match w {
            None => {
                w = Some(*t);
                starts.push(i);
            }
            Some(ws) if *t - ws >= d => {
                w = Some(*t);
                starts.push(i);
            }
            _ => {}
        }
    }
    starts
}

fn decide(case: &Case, info: &mut CaseInfo) -> Verdict {
    let d = case.duration_ns;
    let limit = u64::from(case.limit);
    let attempts = timeline(case);
    if attempts.is_empty() {
        return Verdict::Pass;
    }
    let real = run_real(case.limit, d, &attempts);
    let keys: BTreeSet<u8> = attempts.iter().map(|(_, k)| *k).collect();
    let mut any_reject = false;
    let mut any_roll = false;

    // information: the exact model
    let model = run_model(case.limit, d, &attempts);
    MODEL_COMPARISONS.fetch_add(attempts.len() as u64, Ordering::Relaxed);
    MODEL_DISAGREEMENTS.fetch_add(model.iter().zip(&real.decisions).filter(|(a, b)| a != b).count() as u64, Ordering::Relaxed);

    for key in &keys {
        let idxs: Vec<usize> = attempts.iter().enumerate().filter(|(_, (_, k))| k == key).map(|(i, _)| i).collect();
        let times: Vec<u64> = idxs.iter().map(|i| attempts[*i].0).collect();
        let dec: Vec<bool> = idxs.iter().map(|i| real.decisions[*i]).collect();
        if dec.iter().any(|x| !x) {
            any_reject = true;
        }
        // (b1) at most `limit` admissions between two consecutive window starts
        let starts = window_starts(&times, d);
        if starts.len() > 1 {
            any_roll = true;
        }
        for (si, s) in starts.iter().enumerate() {
            let end = starts.get(si + 1).copied().unwrap_or(times.len());
            let admitted = dec[*s..end].iter().filter(|x| **x).count() as u64;
            if admitted > limit {
                return Verdict::Fail { sig: "more-than-limit-in-one-window".into(), msg: format!("key {key}: {admitted} admissions between the window start at {} ns and the next (limit {limit}, duration {d} ns)", times[*s]) };
            }
        }
        // (b2) at most 2·limit admissions in any interval of length d
        let adm: Vec<u64> = times.iter().zip(&dec).filter(|(_, a)| **a).map(|(t, _)| *t).collect();
        for (i, t) in adm.iter().enumerate() {
            let n = adm[i..].iter().take_while(|x| **x - t < d).count() as u64;
            if n > 2 * limit {
                return Verdict::Fail { sig: "more-than-twice-limit-in-duration".into(), msg: format!("key {key}: {n} admissions in [{t}, {t}+{d}) ns, limit {limit}") };
            }
        }
        // (b3) admitted again after at least 2·d without an attempt
        for i in 0..times.len() {
            let silent = if i == 0 { true } else { times[i] - times[i - 1] >= 2 * d };
            if silent && !dec[i] {
                return Verdict::Fail { sig: "rejected-after-silence".into(), msg: format!("key {key}: attempt at {} ns rejected although the key made no attempt for at least 2·duration before", times[i]) };
            }
        }
        // (c1) decisions for one key are unaffected by other keys and by cleanup: replay its projection
        if keys.len() > 1 {
            let proj: Vec<(u64, u8)> = idxs.iter().map(|i| attempts[*i]).collect();
            let alone = run_real(case.limit, d, &proj);
            if alone.decisions != dec {
                let at = alone.decisions.iter().zip(&dec).position(|(a, b)| a != b).unwrap_or(0);
                return Verdict::Fail { sig: "decision-depends-on-other-keys".into(), msg: format!("key {key}: attempt #{at} at {} ns was {} in the full history and {} when replayed alone (limit {limit}, duration {d} ns)", times[at], if dec[at] { "admitted" } else { "rejected" }, if alone.decisions[at] { "admitted" } else { "rejected" }) };
            }
        }
    }
    // (c2) a rejected attempt consumes nothing: remove one that is not a window start; nothing else changes
    let per_key_starts: BTreeMap<u8, BTreeSet<usize>> = keys
        .iter()
        .map(|key| {
            let idxs: Vec<usize> = attempts.iter().enumerate().filter(|(_, (_, k))| k == key).map(|(i, _)| i).collect();
            let times: Vec<u64> = idxs.iter().map(|i| attempts[*i].0).collect();
            (*key, window_starts(&times, d).into_iter().map(|s| idxs[s]).collect())
        })
        .collect();
    let removable: Vec<usize> = (0..attempts.len()).filter(|i| !real.decisions[*i] && !per_key_starts[&attempts[*i].1].contains(i)).collect();
    for r in removable.iter().take(3) {
        let mut without = attempts.clone();
        without.remove(*r);
        let b = run_real(case.limit, d, &without);
        let mut expect = real.decisions.clone();
        expect.remove(*r);
        if b.decisions != expect {
            let at = b.decisions.iter().zip(&expect).position(|(a, b)| a != b).unwrap_or(0);
            return Verdict::Fail { sig: "rejected-attempt-consumes-budget".into(), msg: format!("removing the rejected attempt #{r} (key {}, {} ns) changes the decision of a later attempt (#{at} of the shortened history, key {}, {} ns)", attempts[*r].1, attempts[*r].0, without[at].1, without[at].0) };
        }
    }
    // (d) after every admitted attempt at T the tracked keys attempted within (T - 4d, T]
    for (i, (t, _)) in attempts.iter().enumerate() {
        if !real.decisions[i] {
            continue;
        }
        for k in &real.tracked[i] {
            let recent = attempts[..=i].iter().any(|(ta, ka)| ka == k && t - ta < 4 * d);
            if !recent {
                let last = attempts[..=i].iter().filter(|(_, ka)| ka == k).map(|(ta, _)| *ta).max();
                return Verdict::Fail { sig: "stale-key-tracked".into(), msg: format!("after the admitted attempt at {t} ns the limiter still tracks key {k}, whose last attempt was at {last:?} ns (duration {d} ns, 4·d = {} ns)", 4 * d) };
            }
        }
    }
    info.nontrivial = any_reject && any_roll && keys.len() >= 2;
    if any_reject {
        info.class("has_rejection");
    }
    if any_roll {
        info.class("has_window_roll");
    }
    info.class(format!("keys:{}", keys.len()));
    if !removable.is_empty() {
        info.class("rejected_attempt_removed");
    }
    Verdict::Pass
}

impl Check for C13 {
    type Case = Case;
    fn id(&self) -> &'static str {
        "C13"
    }
    fn strategy(&self, tier: Tier) -> BoxedStrategy<Case> {
        let max_ops = tier.pick(120usize, 400);
        let dt = prop_oneof![
            2 => Just(Dt::Zero),
            1 => Just(Dt::Nanos(1)),
            2 => (1u8..=5, -2i8..=2).prop_map(|(k, offset)| Dt::Multiple { k, offset }),
            1 => (1u8..=2, proptest::sample::select(vec![-1i8, 0, 1])).prop_map(|(k, offset)| Dt::Multiple { k, offset }),
            4 => (0u16..1000).prop_map(Dt::Fraction),
            1 => (1000u16..2500).prop_map(Dt::Fraction),
            1 => any::<u32>().prop_map(Dt::Nanos),
        ];
        let limit = prop_oneof![6 => 1u16..=6, 3 => 6u16..=20, 1 => 20u16..=200];
        let duration = prop_oneof![
            3 => proptest::sample::select(vec![1_000_000u64, 10_000_000, 1_000_000_000, 60_000_000_000, 100_000_000_000]),
            2 => 1_000_000u64..100_000_000_000,
            // below a millisecond (any duration > 0 is legal)
            1 => proptest::sample::select(vec![1u64, 1_000, 250_000, 800_000, 999_999]),
        ];
        (limit, duration, 1usize..=6)
            .prop_flat_map(move |(limit, duration_ns, nkeys)| {
                let op = prop_oneof![5 => (0..nkeys as u8).prop_map(Op::Attempt), 2 => dt.clone().prop_map(Op::Advance)];
                (Just(limit), Just(duration_ns), proptest::collection::vec(op, 1..max_ops))
            })
            .prop_map(|(limit, duration_ns, ops)| Case { limit, duration_ns, ops })
            .boxed()
    }
    fn cases(&self, tier: Tier) -> u64 {
        tier.pick(20_000, 4_000_000)
    }
    fn run(&self, case: &Case) -> (Verdict, CaseInfo) {
        let mut info = CaseInfo::default();
        let v = decide(case, &mut info);
        (v, info)
    }
    fn rule(&self) -> String {
        "histories of up to 120 (quick) / 400 (thorough) operations over 1-6 keys: Attempt(key) and Advance(dt) with dt from {0, 1 ns, k·d-2..k·d+2 ns for k in 1..5, fractions of d, random}; limit 1-200, duration 1 ns - 100 s (mostly 1 ms - 100 s); run inside a paused tokio runtime. non-trivial = at least one rejection, at least one window roll-over and at least two keys; distinct = distinct case".into()
    }
    fn assumptions(&self) -> Vec<String> {
        vec![
            "a window starts at the key's first attempt and then at each first attempt at least `duration` after the current window start (computed from the attempt times alone)".into(),
            "tracked keys are observed through hook H2 right after every admitted attempt (the limiter only cleans up there)".into(),
            "limits above 2^24 are outside f32's integer range and are not generated".into(),
            "the exact-arithmetic reference limiter is compared for information only (coverage.reference_model_disagreements); the property does not prescribe the weighting".into(),
        ]
    }
    fn sample(&self, case: &Case) -> Value {
        json!({"limit": case.limit, "duration_ns": case.duration_ns, "ops": case.ops.iter().take(40).collect::<Vec<_>>(), "ops_total": case.ops.len()})
    }
    fn finish(&self, stats: &crate::runner::Stats) {
        stats.set_extra("reference_model_decisions_compared", json!(MODEL_COMPARISONS.load(Ordering::Relaxed)));
        stats.set_extra("reference_model_disagreements", json!(MODEL_DISAGREEMENTS.load(Ordering::Relaxed)));
    }
    fn extra(&self, _tier: Tier, _seed: u64, _stats: &crate::runner::Stats) -> Vec<(String, String, Value)> {
        MODEL_COMPARISONS.store(0, Ordering::Relaxed);
        MODEL_DISAGREEMENTS.store(0, Ordering::Relaxed);
        Vec::new()
    }
}
