//! C06 — Packets are only exchanged in protocol order; status and login never mix.
//!
//! Generated sequences of serverbound frames (the legal next packet, any packet of any phase, raw
//! frames with unknown ids, repeats, handshakes with arbitrary next-state) are sent one at a time;
//! after each frame the server runs to quiescence and the newly sent clientbound packets are compared
//! with the prediction of a reference state machine written from the property statement.

use crate::cookie::{self, CookieSpec, Identity, Mutation};
use crate::gens;
use crate::refcodec::{self as rc, Dir, Phase, Pkt, hexbytes};
use crate::runner::{CaseInfo, Check, Tier, Verdict};
use crate::sim::{self, AdapterScript, AuthV, ConnCfg, EncResp, StatusV, StrategyV, TransportScript};
use proptest::prelude::*;
use serde::{Deserialize, Serialize};
use serde_json::{Value, json};
use std::net::SocketAddr;
use std::sync::{Arc, Mutex};

#[derive(Clone, Debug, Serialize, Deserialize, PartialEq)]
pub enum Item {
    /// the legal next packet in the reference machine's current state
    Legal,
    /// this packet, framed under its own id (any phase, either direction's id space)
    Pkt(Pkt),
    /// a raw frame
    Raw { id: i32, #[serde(with = "hexbytes")] body: Vec<u8> },
    /// the previous frame again
    Repeat,
    /// an Encryption Response built from the server's Encryption Request (if one was seen), but dishonest
    Enc(EncResp),
    /// the client sends nothing for this many (virtual) milliseconds
    Stall(u32),
    /// the body of the legal next packet under an id that shares its low bits with the legal id
    /// (legal id + 2^7, 2^14, 2^21 or 2^28): some other packet, not the expected one
    AliasLegal(u8),
}

#[derive(Clone, Debug, Serialize, Deserialize)]
pub struct Case {
    pub cfg: ConnCfg,
    /// next-state of the legal handshake
    pub intent: i32,
    pub name: String,
    pub uuid: uuid::Uuid,
    pub host: String,
    pub port: u16,
    pub ping: u64,
    /// present a valid session cookie
    pub session_cookie: bool,
    /// present a fresh valid authentication cookie when asked
    pub auth_cookie: bool,
    pub adapters: AdapterScript,
    pub items: Vec<Item>,
    pub select_seed: u64,
    /// slow routing: discovery takes this long, and from the n-th clientbound write on every write stays pending
    /// for a while (a client that does not drain its socket); after Client Information only the global ordering
    /// rules are judged (the terminal packet is the last one)
    #[serde(default)]
    pub slow: Option<Slow>,
    /// not a connection script at all: the status phase against a passage child process whose status service is
    /// the HTTP adapter in front of a scripted endpoint (see c06_http.rs)
    #[serde(default)]
    pub http_status: Option<crate::checks::c06_http::Scenario>,
}

#[derive(Clone, Debug, Serialize, Deserialize, PartialEq)]
pub struct Slow {
    pub discovery_ms: u32,
    pub pending_from: u8,
    pub pending_ms: u16,
    /// the first bytes of each such write are accepted at once (0 = none)
    #[serde(default)]
    pub prefix: u8,
}

pub struct C06;

#[derive(Clone, Debug, PartialEq)]
enum St {
    AwaitHandshake,
    AwaitStatusRequest,
    AwaitPing,
    AwaitLoginStart,
    AwaitSessionCookie,
    AwaitAuthCookie,
    AwaitEncResponse { should_auth: bool },
    AwaitLoginAck,
    AwaitClientInfo,
    Ended,
    /// behaviour from here on is not stated by the property
    Unspecified,
}

/// what the model expects the server to send in reaction to one frame
#[derive(Clone, Debug, PartialEq)]
enum Expect {
    /// exactly these packet kinds, in order
    Kinds(Vec<&'static str>),
    /// (Keep Alive | Store Cookie)* then exactly one of these
    Tail(&'static str),
    /// no expectation
    Any,
}

#[derive(Clone, Debug)]
struct Step {
    sent: String,
    frame_id: i32,
    frame_body: Vec<u8>,
    state_before: St,
    expect: Expect,
    ends: bool,
    got: Vec<Pkt>,
    server_done_after: bool,
    deviation: bool,
}

fn render_status(s: &StatusV, protocol: i32) -> Option<Value> {
    match s {
        StatusV::None => Some(Value::Null),
        StatusV::Err => None,
        StatusV::Some { name, protocol: p, players, description, favicon, enforces_secure_chat } => {
            let _ = protocol;
            Some(json!({
                "version": {"name": name, "protocol": p},
                "players": players.as_ref().map(|(online, max, sample)| json!({"online": online, "max": max, "sample": sample.as_ref().map(|v| v.iter().map(|(n, i)| json!({"name": n, "id": i})).collect::<Vec<_>>())})),
                "description": description.as_ref().and_then(|d| serde_json::from_str::<Value>(d).ok()),
                "favicon": favicon,
                "enforcesSecureChat": enforces_secure_chat,
            }))
        }
    }
}

fn drop_nulls(v: &Value) -> Value {
    match v {
        Value::Object(o) => Value::Object(o.iter().filter(|(_, v)| !v.is_null()).map(|(k, v)| (k.clone(), drop_nulls(v))).collect()),
        Value::Array(a) => Value::Array(a.iter().map(drop_nulls).collect()),
        o => o.clone(),
    }
}

/// classification of a frame against the single packet the state expects
enum Class {
    /// right id, the body is exactly that packet
    Exact(Pkt),
    /// right id, a prefix of the body is that packet, bytes are left over (or a non-0/1 boolean matters)
    Ambiguous,
    Other,
}

fn classify(phase: Phase, want_id: i32, id: i32, body: &[u8]) -> Class {
    if id != want_id {
        return Class::Other;
    }
    let mut r = rc::R::new(body);
    match Pkt::decode_prefix(phase, Dir::Sb, id, &mut r) {
        Ok(p) if r.remaining() == 0 => Class::Exact(p),
        Ok(_) => Class::Ambiguous,
        Err(rc::DecodeError::BadOrdinal("bool", _)) => Class::Ambiguous,
        Err(_) => Class::Other,
    }
}

struct Shared {
    steps: Vec<Step>,
    reached_routing: bool,
    reached_login_success_expectation: bool,
}

fn session_payload(case: &Case) -> Vec<u8> {
    serde_json::to_vec(&json!({"id": "7d3f9d2c-0f4e-4a86-8a3b-6f0f6a1b2c3d", "server_address": case.host, "server_port": case.port})).unwrap()
}

fn run_case(case: &Case) -> (sim::SimOutcome, Vec<Step>, bool, u64, u64) {
    let shared = Arc::new(Mutex::new(Shared { steps: Vec::new(), reached_routing: false, reached_login_success_expectation: false }));
    let sh2 = Arc::clone(&shared);
    let case2 = case.clone();
    let now0 = cookie::now_secs();
    let mut adapters = case.adapters.clone();
    let mut transport = TransportScript::default();
    if let Some(slow) = &case.slow {
        adapters.discovery_ms = slow.discovery_ms;
        transport.wscript = vec![sim::WStep::All; usize::from(slow.pending_from)];
        for _ in 0..6 {
            if slow.prefix > 0 {
                transport.wscript.push(sim::WStep::Prefix(u16::from(slow.prefix)));
            }
            transport.wscript.push(sim::WStep::PendingFor(slow.pending_ms));
        }
    }
    let out = sim::run_sim(
        &case.cfg,
        &adapters,
        &transport,
        case.select_seed,
        1000,
        crate::client_fn!(|c| {
            let case = case2;
            let client_ip = case.cfg.client_addr.parse::<SocketAddr>().unwrap().ip();
            let mut st = St::AwaitHandshake;
            let mut transfer_intent = false;
            let mut handshake_proto = 0i32;
            let mut last_frame: Option<(i32, Vec<u8>)> = None;
            let secret16: [u8; 16] = *b"0123456789abcdef";
            let auth_cookie_bytes: Option<Vec<u8>> = if case.auth_cookie {
                let spec = CookieSpec {
                    age: 3,
                    addr: case.cfg.client_addr.clone(),
                    identity: Identity { name: "CookieUser".into(), uuid: uuid::Uuid::from_u128(0xC00C1E), properties: vec![] },
                    target: None,
                    other_secret: None,
                    mutation: Mutation::None,
                };
                Some(cookie::build(&spec, case.cfg.secret.as_deref(), cookie::now_secs()))
            } else {
                None
            };
            let mut ka_outstanding = false;
            for item in &case.items {
                if let Item::Stall(ms) = item {
                    // silence: only a client in the configuration phase is sent anything (Keep Alive, then the
                    // timeout Disconnect); ticks are the multiples of 16 s since the connection was accepted
                    let t0 = c.now_ms();
                    let mut t1 = t0 + u64::from(*ms).max(1);
                    // stay clear of the ticks, so that only this step can cross one
                    let r = t1 % 16_000;
                    if r < 100 {
                        t1 += 100 - r;
                    } else if r > 15_000 {
                        t1 += 16_100 - r;
                    }
                    let ticks = t1 / 16_000 - t0 / 16_000;
                    let state_before = st.clone();
                    let mut expect = Expect::Kinds(vec![]);
                    let mut ends = false;
                    match &st {
                        St::AwaitClientInfo if ticks > 0 => {
                            let mut kinds = Vec::new();
                            if !ka_outstanding {
                                kinds.push("CfgKeepAlive");
                                ka_outstanding = true;
                                if ticks > 1 {
                                    kinds.push("CfgDisconnect");
                                }
                            } else {
                                kinds.push("CfgDisconnect");
                            }
                            if kinds.contains(&"CfgDisconnect") {
                                ends = true;
                                st = St::Ended;
                            }
                            expect = Expect::Kinds(kinds);
                        }
                        St::Unspecified => expect = Expect::Any,
                        _ => {}
                    }
                    c.sleep_until_ms(t1).await;
                    c.settle().await;
                    let got: Vec<Pkt> = c.drain().into_iter().map(|(_, p)| p).collect();
                    let done = c.server_done();
                    sh2.lock().unwrap().steps.push(Step { frame_id: -1, frame_body: vec![], sent: format!("silence from {t0} ms to {t1} ms ({ticks} keep-alive ticks)"), state_before, expect, ends, got, server_done_after: done, deviation: true });
                    continue;
                }
                // resolve the item into a frame
                let mut legal_enc = false;
                let (id, body): (i32, Vec<u8>) = match item {
                    Item::Raw { id, body } => (*id, body.clone()),
                    Item::Pkt(p) => (p.id(), p.body()),
                    Item::Repeat => match &last_frame {
                        Some(f) => f.clone(),
                        None => (0x00, vec![]),
                    },
                    Item::Stall(_) => unreachable!(),
                    Item::Enc(variant) => {
                        let p = c.encryption_response(variant, &secret16).unwrap_or(Pkt::EncryptionResponse { secret: vec![1, 2, 3], token: vec![4, 5, 6] });
                        (p.id(), p.body())
                    }
                    Item::Legal | Item::AliasLegal(_) => {
                        let p = match &st {
                            St::AwaitHandshake => Pkt::Handshake { protocol: 770, host: case.host.clone(), port: case.port, next: case.intent },
                            St::AwaitStatusRequest => Pkt::StatusRequest,
                            St::AwaitPing => Pkt::StatusPing { payload: case.ping },
                            St::AwaitLoginStart => Pkt::LoginStart { name: case.name.clone(), uuid: case.uuid },
                            St::AwaitSessionCookie => Pkt::LoginCookieResponse { key: cookie::SESSION_KEY.into(), payload: if case.session_cookie { Some(session_payload(&case)) } else { None } },
                            St::AwaitAuthCookie => Pkt::LoginCookieResponse { key: cookie::AUTH_KEY.into(), payload: auth_cookie_bytes.clone() },
                            St::AwaitEncResponse { .. } => {
                                legal_enc = true;
                                c.encryption_response(&EncResp::Honest, &secret16).unwrap_or(Pkt::EncryptionResponse { secret: vec![], token: vec![] })
                            }
                            St::AwaitLoginAck => Pkt::LoginAck,
                            St::AwaitClientInfo => sim::client_information("en_us"),
                            // nothing is legal any more: send a harmless status request
                            St::Ended | St::Unspecified => Pkt::StatusRequest,
                        };
                        match item {
                            Item::AliasLegal(k) => {
                                legal_enc = false;
                                (p.id() | (1i32 << [7u32, 14, 21, 28][usize::from(*k) % 4]), p.body())
                            }
                            _ => (p.id(), p.body()),
                        }
                    }
                };
                last_frame = Some((id, body.clone()));
                let state_before = st.clone();
                // ---- the reference machine
                let mut expect = Expect::Kinds(vec![]);
                let mut ends = false;
                let mut deviation = !matches!(item, Item::Legal);
                match &st {
                    St::AwaitHandshake => match classify(Phase::Handshake, 0x00, id, &body) {
                        Class::Exact(Pkt::Handshake { next, protocol, .. }) if (1..=3).contains(&next) => {
                            handshake_proto = protocol;
                            transfer_intent = next == 3;
                            st = if next == 1 { St::AwaitStatusRequest } else { St::AwaitLoginStart };
                            c.cb_phase = if next == 1 { Phase::Status } else { Phase::Login };
                        }
                        Class::Ambiguous => {
                            st = St::Unspecified;
                            expect = Expect::Any;
                        }
                        _ => {
                            st = St::Ended;
                            ends = true;
                        }
                    },
                    St::AwaitStatusRequest => match classify(Phase::Status, 0x00, id, &body) {
                        Class::Exact(_) => match render_status(&case.adapters.status, handshake_proto) {
                            Some(_) => {
                                expect = Expect::Kinds(vec!["StatusResponse"]);
                                st = St::AwaitPing;
                            }
                            None => {
                                st = St::Ended;
                                ends = true;
                            }
                        },
                        Class::Ambiguous => {
                            st = St::Unspecified;
                            expect = Expect::Any;
                        }
                        Class::Other => {
                            st = St::Ended;
                            ends = true;
                        }
                    },
                    St::AwaitPing => match classify(Phase::Status, 0x01, id, &body) {
                        Class::Exact(_) => {
                            expect = Expect::Kinds(vec!["StatusPong"]);
                            st = St::Ended;
                            ends = true;
                        }
                        Class::Ambiguous => {
                            st = St::Unspecified;
                            expect = Expect::Any;
                        }
                        Class::Other => {
                            st = St::Ended;
                            ends = true;
                        }
                    },
                    St::AwaitLoginStart => match classify(Phase::Login, 0x00, id, &body) {
                        Class::Exact(_) => {
                            expect = Expect::Kinds(vec!["LoginCookieRequest"]);
                            st = St::AwaitSessionCookie;
                        }
                        Class::Ambiguous => {
                            st = St::Unspecified;
                            expect = Expect::Any;
                        }
                        Class::Other => {
                            st = St::Ended;
                            ends = true;
                        }
                    },
                    St::AwaitSessionCookie => match classify(Phase::Login, 0x04, id, &body) {
                        Class::Exact(Pkt::LoginCookieResponse { payload, .. }) => {
                            // only the two payloads the legal client uses are specified (absent / a valid session cookie)
                            let ok = payload.is_none() || payload.as_deref() == Some(&session_payload(&case)[..]);
                            if !ok {
                                st = St::Unspecified;
                                expect = Expect::Any;
                            } else if transfer_intent && case.cfg.secret.is_some() {
                                expect = Expect::Kinds(vec!["LoginCookieRequest"]);
                                st = St::AwaitAuthCookie;
                            } else {
                                expect = Expect::Kinds(vec!["EncryptionRequest"]);
                                st = St::AwaitEncResponse { should_auth: true };
                            }
                        }
                        Class::Ambiguous | Class::Exact(_) => {
                            st = St::Unspecified;
                            expect = Expect::Any;
                        }
                        Class::Other => {
                            st = St::Ended;
                            ends = true;
                        }
                    },
                    St::AwaitAuthCookie => match classify(Phase::Login, 0x04, id, &body) {
                        Class::Exact(Pkt::LoginCookieResponse { payload, .. }) => {
                            let now = cookie::now_secs();
                            let acc = cookie::accept(3, case.cfg.secret.as_deref(), payload.as_deref(), client_ip, case.cfg.expiry, now).is_some();
                            expect = Expect::Kinds(vec!["EncryptionRequest"]);
                            st = St::AwaitEncResponse { should_auth: !acc };
                        }
                        Class::Ambiguous | Class::Exact(_) => {
                            st = St::Unspecified;
                            expect = Expect::Any;
                        }
                        Class::Other => {
                            st = St::Ended;
                            ends = true;
                        }
                    },
                    St::AwaitEncResponse { should_auth } => {
                        if legal_enc && c.enc_req.is_some() {
                            if *should_auth && matches!(case.adapters.auth, AuthV::Err) {
                                st = St::Ended;
                                ends = true;
                            } else {
                                expect = Expect::Kinds(vec!["LoginSuccess"]);
                                st = St::AwaitLoginAck;
                                sh2.lock().unwrap().reached_login_success_expectation = true;
                            }
                        } else {
                            // anything that is not the issued token encrypted to the server key
                            st = St::Ended;
                            ends = true;
                        }
                    }
                    St::AwaitLoginAck => match classify(Phase::Login, 0x03, id, &body) {
                        Class::Exact(_) => st = St::AwaitClientInfo,
                        Class::Ambiguous => {
                            st = St::Unspecified;
                            expect = Expect::Any;
                        }
                        Class::Other => {
                            st = St::Ended;
                            ends = true;
                        }
                    },
                    St::AwaitClientInfo => {
                        // accepted set: client information, keep alive, plugin message, resource pack response, cookie response
                        if client_information_valid(id, &body) && case.slow.is_some() {
                            // routing takes long and writes stay pending: only the global ordering rules are judged
                            st = St::Unspecified;
                            expect = Expect::Any;
                            sh2.lock().unwrap().reached_routing = true;
                        } else if client_information_valid(id, &body) {
                            // routing: (Keep Alive | Store Cookie)* then Transfer or Disconnect
                            let discovered = case.adapters.discovery.clone().unwrap_or_default();
                            let chosen = sim::apply_strategy(&case.adapters.strategy, &discovered).ok().flatten();
                            expect = Expect::Tail(if chosen.is_some() { "CfgTransfer" } else { "CfgDisconnect" });
                            st = St::Ended;
                            ends = true;
                            sh2.lock().unwrap().reached_routing = true;
                        } else if cfg_silently_accepted(id, &body) {
                            // ignored / handled silently
                        } else {
                            st = St::Unspecified;
                            expect = Expect::Any;
                        }
                    }
                    St::Ended => {
                        deviation = true;
                    }
                    St::Unspecified => {
                        expect = Expect::Any;
                    }
                }
                // ---- send and observe
                let f = rc::frame(id, &body);
                c.push(&f);
                c.note_sb(&format!("id{id:#x}"));
                if legal_enc && c.enc_req.is_some() {
                    c.enable_encryption(&secret16);
                }
                c.settle().await;
                let got: Vec<Pkt> = c.drain().into_iter().map(|(_, p)| p).collect();
                let done = c.server_done();
                sh2.lock().unwrap().steps.push(Step {
                    frame_id: id,
                    frame_body: body.clone(),
                    sent: format!("{item:?}").chars().take(80).collect::<String>() + &format!(" -> id {id:#x} ({} bytes)", body.len()),
                    state_before,
                    expect,
                    ends,
                    got,
                    server_done_after: done,
                    deviation,
                });
            }
        }),
    );
    let now1 = cookie::now_secs();
    let s = shared.lock().unwrap();
    (out, s.steps.clone(), s.reached_routing, now0, now1)
}

fn decide(case: &Case, out: &sim::SimOutcome, steps: &[Step], reached_routing: bool, info: &mut CaseInfo) -> Verdict {
    if let sim::ServerEnd::Panicked { msg } = &out.end {
        return Verdict::Fail { sig: "panic".into(), msg: format!("connection handler panicked: {msg}") };
    }
    if out.stream_broken.is_some() {
        return Verdict::Fail { sig: "clientbound-stream-broken".into(), msg: format!("{:?}", out.stream_broken) };
    }
    let mut unspecified = false;
    let mut ended = false;
    for (i, s) in steps.iter().enumerate() {
        let got_kinds: Vec<&'static str> = s.got.iter().map(Pkt::kind).collect();
        if ended {
            if !s.got.is_empty() {
                return Verdict::Fail { sig: "packets-after-end".into(), msg: format!("step {i} ({}): the connection must have ended, but {:?} was sent", s.sent, got_kinds) };
            }
            continue;
        }
        if unspecified || s.expect == Expect::Any {
            unspecified = true;
            continue;
        }
        match &s.expect {
            Expect::Kinds(k) => {
                if got_kinds != *k {
                    let sig = if k.is_empty() {
                        format!("reply-to-unexpected-packet:{:?}", s.state_before).split([' ', '{']).next().unwrap().to_string()
                    } else {
                        format!("wrong-reply:{:?}", s.state_before).split([' ', '{']).next().unwrap().to_string()
                    };
                    return Verdict::Fail { sig, msg: format!("step {i}: in state {:?} the client sent {}; expected the server to send {:?}, it sent {:?}", s.state_before, s.sent, k, got_kinds) };
                }
            }
            Expect::Tail(last) => {
                let ok = got_kinds.last() == Some(last) && got_kinds[..got_kinds.len() - 1].iter().all(|k| *k == "CfgKeepAlive" || *k == "CfgStoreCookie");
                if !ok {
                    return Verdict::Fail { sig: "wrong-routing-tail".into(), msg: format!("step {i}: after Client Information expected (Keep Alive | Store Cookie)* {last}, got {:?}", got_kinds) };
                }
            }
            Expect::Any => {}
        }
        if s.ends {
            if !s.server_done_after {
                return Verdict::Fail { sig: format!("connection-not-ended:{:?}", s.state_before).split([' ', '{']).next().unwrap().to_string(), msg: format!("step {i}: in state {:?} the client sent {}; the connection must end, but the handler is still running", s.state_before, s.sent) };
            }
            ended = true;
        } else if s.server_done_after {
            return Verdict::Fail { sig: "connection-ended-early".into(), msg: format!("step {i}: in state {:?} after {}, the handler ended ({}) although the exchange continues", s.state_before, s.sent, out.end_label()) };
        }
        // content checks
        for p in &s.got {
            match p {
                Pkt::StatusResponse { body } => {
                    let expected = render_status(&case.adapters.status, 0).unwrap_or(Value::Null);
                    let got: Value = match serde_json::from_str(body) {
                        Ok(v) => v,
                        Err(e) => return Verdict::Fail { sig: "status-body-not-json".into(), msg: format!("{e}: {body}") },
                    };
                    if drop_nulls(&got) != drop_nulls(&expected) {
                        return Verdict::Fail { sig: "status-body-mismatch".into(), msg: format!("Status Response {got}, status service answered {expected}") };
                    }
                }
                Pkt::StatusPong { payload } => {
                    // the ping that was sent in this step
                    let sent_payload = match classify_ping(&steps[i]) {
                        Some(p) => p,
                        None => case.ping,
                    };
                    if *payload != sent_payload {
                        return Verdict::Fail { sig: "pong-payload-mismatch".into(), msg: format!("Pong {payload}, Ping {sent_payload}") };
                    }
                }
                Pkt::LoginCookieRequest { key } => {
                    let want = if matches!(s.state_before, St::AwaitLoginStart) { cookie::SESSION_KEY } else { cookie::AUTH_KEY };
                    if key != want {
                        return Verdict::Fail { sig: "cookie-request-order".into(), msg: format!("Cookie Request for {key:?} where {want:?} is due") };
                    }
                }
                _ => {}
            }
        }
    }
    // global invariants over the whole clientbound sequence
    let kinds = out.cb_kinds();
    let pos = |k: &str| kinds.iter().position(|x| *x == k);
    if let (Some(ls), er) = (pos("LoginSuccess"), pos("EncryptionRequest")) {
        if er.is_none_or(|e| e > ls) {
            return Verdict::Fail { sig: "login-success-before-encryption-request".into(), msg: format!("{kinds:?}") };
        }
    }
    if kinds.iter().filter(|k| **k == "StatusResponse").count() > 1 || kinds.iter().filter(|k| **k == "StatusPong").count() > 1 {
        return Verdict::Fail { sig: "status-answered-twice".into(), msg: format!("{kinds:?}") };
    }
    let status_kinds = kinds.iter().any(|k| k.starts_with("Status"));
    let login_kinds = kinds.iter().any(|k| !k.starts_with("Status"));
    if status_kinds && login_kinds {
        return Verdict::Fail { sig: "status-and-login-mixed".into(), msg: format!("{kinds:?}") };
    }
    if let Some(t) = kinds.iter().position(|k| *k == "CfgTransfer" || *k == "CfgDisconnect") {
        if t != kinds.len() - 1 {
            return Verdict::Fail { sig: "packets-after-terminal".into(), msg: format!("{kinds:?}") };
        }
    }
    if !unspecified && !reached_routing {
        for kind in ["discover", "filter", "select"] {
            if !out.calls(kind).is_empty() {
                return Verdict::Fail { sig: "routing-before-client-information".into(), msg: format!("{kind} was consulted although Login Acknowledged and Client Information were not both received; steps: {:?}", steps.iter().map(|s| s.sent.clone()).collect::<Vec<_>>()) };
            }
        }
    }
    let login_success_expected = steps.iter().any(|s| s.expect == Expect::Kinds(vec!["LoginSuccess"]));
    if !unspecified && !login_success_expected && pos("LoginSuccess").is_some() {
        return Verdict::Fail { sig: "login-success-without-valid-encryption-response".into(), msg: format!("{kinds:?}") };
    }
    info.nontrivial = steps.iter().any(|s| s.deviation) || kinds.iter().any(|k| matches!(*k, "CfgTransfer" | "CfgDisconnect" | "StatusPong"));
    if unspecified {
        info.class("reached:unspecified");
    }
    if ended {
        info.class("reached:ended");
    }
    for k in ["StatusPong", "LoginSuccess", "CfgTransfer", "CfgDisconnect"] {
        if pos(k).is_some() {
            info.class(format!("sent:{k}"));
        }
    }
    if let Some(s) = steps.iter().find(|s| s.deviation && !matches!(s.state_before, St::Ended | St::Unspecified)) {
        info.class(format!("deviation_in:{:?}", s.state_before).split([' ', '{']).next().unwrap().to_string());
    }
    Verdict::Pass
}

fn classify_ping(step: &Step) -> Option<u64> {
    if step.frame_id == 0x01 && step.frame_body.len() == 8 {
        return Some(u64::from_be_bytes(step.frame_body[..].try_into().unwrap()));
    }
    None
}

/// a configuration-phase frame of the accepted set that every conforming server must accept silently
fn cfg_silently_accepted(id: i32, body: &[u8]) -> bool {
    match id {
        // keep alive: exactly eight bytes
        0x04 => body.len() == 8,
        // plugin message: identifier + arbitrary data
        0x02 => {
            let mut r = rc::R::new(body);
            r.string().is_ok_and(|s| !s.is_empty())
        }
        // cookie response: identifier, presence flag, optional payload
        0x01 => {
            let mut r = rc::R::new(body);
            if r.string().is_err() {
                return false;
            }
            match r.u8() {
                Ok(0) => r.remaining() == 0,
                Ok(1) => r.bytes().is_ok() && r.remaining() == 0,
                _ => false,
            }
        }
        // resource pack response: uuid + result ordinal 0..=7
        0x06 => matches!(Pkt::decode(Phase::Config, Dir::Sb, id, body), Ok(Pkt::CfgResourcePackResponse { result, .. }) if (0..=7).contains(&result)),
        _ => false,
    }
}

fn client_information_valid(id: i32, body: &[u8]) -> bool {
    matches!(Pkt::decode(Phase::Config, Dir::Sb, id, body), Ok(Pkt::ClientInformation { chat_mode, main_hand, particle_status, .. }) if id == 0 && (0..=2).contains(&chat_mode) && (0..=1).contains(&main_hand) && (0..=2).contains(&particle_status))
}

fn any_pkt() -> BoxedStrategy<Pkt> {
    prop_oneof![
        2 => (any::<i32>(), gens::host(), any::<u16>(), prop_oneof![1i32..=3, proptest::sample::select(vec![-1i32, 0, 4, i32::MAX])]).prop_map(|(protocol, host, port, next)| Pkt::Handshake { protocol, host, port, next }),
        2 => Just(Pkt::StatusRequest),
        2 => any::<u64>().prop_map(|payload| Pkt::StatusPing { payload }),
        2 => (gens::name(), gens::uuid()).prop_map(|(name, uuid)| Pkt::LoginStart { name, uuid }),
        2 => (proptest::collection::vec(any::<u8>(), 0..140), proptest::collection::vec(any::<u8>(), 0..140)).prop_map(|(secret, token)| Pkt::EncryptionResponse { secret, token }),
        1 => Just(Pkt::LoginPluginResponse),
        2 => Just(Pkt::LoginAck),
        2 => ("[a-z:]{0,24}", proptest::option::of(proptest::collection::vec(any::<u8>(), 0..60))).prop_map(|(key, payload)| Pkt::LoginCookieResponse { key, payload }),
        2 => "[a-z_]{0,8}".prop_map(|l| sim::client_information(&l)),
        1 => Just(Pkt::CfgCookieResponse),
        1 => Just(Pkt::CfgPluginMessageSb),
        1 => Just(Pkt::CfgAckFinish),
        2 => any::<u64>().prop_map(|id| Pkt::CfgKeepAliveSb { id }),
        1 => any::<i32>().prop_map(|id| Pkt::CfgPong { id }),
        1 => (gens::uuid(), 0i32..=7).prop_map(|(uuid, result)| Pkt::CfgResourcePackResponse { uuid, result }),
        1 => Just(Pkt::CfgKnownPacksSb),
    ]
    .boxed()
}

impl Check for C06 {
    type Case = Case;
    fn id(&self) -> &'static str {
        "C06"
    }
    fn strategy(&self, _tier: Tier) -> BoxedStrategy<Case> {
        let item = prop_oneof![
            8 => Just(Item::Legal),
            5 => any_pkt().prop_map(Item::Pkt),
            2 => (prop_oneof![0x08i32..0x80, proptest::sample::select(vec![-1i32, 0x7f, 0x80, 0x3fff, i32::MAX, 5, 6, 7])], proptest::collection::vec(any::<u8>(), 0..20)).prop_map(|(id, body)| Item::Raw { id, body }),
            1 => (0i32..8, proptest::collection::vec(any::<u8>(), 0..30)).prop_map(|(id, body)| Item::Raw { id, body }),
            2 => Just(Item::Repeat),
            2 => (0u8..4).prop_map(Item::AliasLegal),
            2 => prop_oneof![
                (0u8..32).prop_map(EncResp::TokenPrefix),
                (0u16..256).prop_map(EncResp::TokenFlip),
                proptest::collection::vec(any::<u8>(), 32..=32).prop_map(EncResp::WrongToken),
                Just(EncResp::PlainToken),
                Just(EncResp::ForeignKey),
            ].prop_map(Item::Enc),
            2 => prop_oneof![2 => proptest::sample::select(vec![15_000u32, 16_001, 17_000, 33_000, 50_000]), 1 => 1u32..70_000].prop_map(Item::Stall),
            1 => proptest::collection::vec(any::<u8>(), 0..40).prop_map(|data| { let mut w = rc::W::new(); w.string("minecraft:brand").raw(&data); Item::Raw { id: 0x02, body: w.0 } }),
            1 => proptest::option::of(proptest::collection::vec(any::<u8>(), 0..40)).prop_map(|p| { let mut w = rc::W::new(); w.string("some:cookie").bool(p.is_some()); if let Some(p) = p { w.bytes(&p); } Item::Raw { id: 0x01, body: w.0 } }),
        ];
        let status = prop_oneof![
            1 => Just(StatusV::None),
            1 => Just(StatusV::Err),
            4 => ("[ -~]{0,12}", any::<i32>(), proptest::option::of((any::<u32>(), any::<u32>(), proptest::option::of(proptest::collection::vec(("[a-z]{1,8}", "[a-f0-9-]{0,36}"), 0..3)))), proptest::option::of(prop_oneof![Just("\"A Minecraft Server\"".to_string()), Just("{\"text\":\"hi\",\"bold\":true}".to_string())]), proptest::option::of("[a-zA-Z0-9+/=:;,]{0,40}"), proptest::option::of(any::<bool>()))
                .prop_map(|(name, protocol, players, description, favicon, enforces_secure_chat)| StatusV::Some { name, protocol, players, description, favicon, enforces_secure_chat }),
        ];
        (
            (gens::client_addr(), prop_oneof![1 => Just(None), 2 => proptest::collection::vec(any::<u8>(), 1..32).prop_map(Some)], prop_oneof![2 => Just(1i32), 2 => Just(2i32), 3 => Just(3i32)]),
            (gens::name(), gens::uuid(), gens::host(), gens::port(), any::<u64>(), any::<bool>(), any::<bool>()),
            (status, prop_oneof![4 => Just(AuthV::Echo), 1 => Just(AuthV::Err)], gens::targets(3), any::<u16>(), prop_oneof![
                // a legal prefix of every depth, then deviations / legal packets mixed
                3 => (0usize..=8, proptest::collection::vec(item.clone(), 0..=4)).prop_map(|(k, tail)| { let mut v = vec![Item::Legal; k]; v.extend(tail); if v.is_empty() { v.push(Item::Legal); } v }),
                1 => proptest::collection::vec(item, 1..=12),
            ], any::<u64>()),
        )
            .prop_map(|((client_addr, secret, intent), (name, uuid, host, port, ping, session_cookie, auth_cookie), (status, auth, targets, pick, items, select_seed))| Case {
                cfg: ConnCfg { secret, client_addr, ..Default::default() },
                intent,
                name,
                uuid,
                host,
                port,
                ping,
                session_cookie,
                auth_cookie,
                adapters: AdapterScript { status, auth, discovery: Some(targets), strategy: StrategyV::Pick(pick), ..Default::default() },
                items,
                select_seed,
                slow: None,
                http_status: None,
            })
            .prop_flat_map(|case| {
                // a share of login cases: the legal flow up to Client Information, then silence while a slow discovery
                // completes during a pending write around the keep-alive deadline (tick 32 s)
                (Just(case), prop::bool::weighted(0.08), 100u16..2000, 3u8..7, 0u32..3000).prop_map(|(mut case, slow, pending_ms, pending_from, extra)| {
                    if slow && case.intent != 1 {
                        let with_auth_cookie = case.intent == 3 && case.cfg.secret.is_some();
                        let legal = 6 + usize::from(with_auth_cookie);
                        // writes before the configuration phase (cookie requests, Encryption Request, Login Success) are
                        // accepted at once; the Keep Alive and/or the packets after it stay pending
                        let pending_from = 3 + u8::from(with_auth_cookie) + pending_from % 2;
                        case.items = vec![Item::Legal; legal];
                        case.items.push(Item::Stall(35_000 + extra));
                        case.adapters.auth = AuthV::Echo;
                        // half of them: a few bytes of each write go out at once, the rest stays pending
                        let prefix = if extra % 2 == 0 { 1 + (extra % 7) as u8 } else { 0 };
                        // discovery completes during the pending write at the keep-alive deadline (32 s), or already during
                        // the pending write of the first Keep Alive (16 s)
                        let tick = if extra % 3 == 0 { 16_000 } else { 32_000 };
                        case.slow = Some(Slow { discovery_ms: tick + u32::from(pending_ms) / 2, pending_from, pending_ms, prefix });
                    }
                    case
                })
            })
            .boxed()
    }
    fn cases(&self, tier: Tier) -> u64 {
        tier.pick(8_000, 300_000)
    }
    fn run(&self, case: &Case) -> (Verdict, CaseInfo) {
        if let Some(sc) = &case.http_status {
            let mut info = CaseInfo::default();
            info.class("status_service_behind_the_http_adapter");
            info.nontrivial = true;
            return match crate::checks::c06_http::run(sc) {
                Ok(_) => (Verdict::Pass, info),
                Err((sig, msg)) if sig == "inconclusive" => (Verdict::Inconclusive(msg), info),
                Err((sig, msg)) => (Verdict::Fail { sig, msg }, info),
            };
        }
        let (out, steps, reached_routing, now0, now1) = run_case(case);
        let mut info = CaseInfo::default();
        info.class(match case.intent {
            1 => "intent:status",
            2 => "intent:login",
            _ => "intent:transfer",
        });
        if now0 != now1 && case.auth_cookie {
            return (Verdict::Inconclusive("second changed while a cookie age mattered".into()), info);
        }
        let v = decide(case, &out, &steps, reached_routing, &mut info);
        (v, info)
    }
    fn extra(&self, tier: Tier, seed: u64, stats: &crate::runner::Stats) -> Vec<(String, String, serde_json::Value)> {
        // the status phase with the status service behind the real HTTP adapter (child process, real time)
        let scenarios = crate::checks::c06_http::scenarios(seed, tier.pick(6, 48));
        let found = std::sync::Mutex::new(Vec::new());
        let judged = std::sync::atomic::AtomicU64::new(0);
        let inconclusive = std::sync::atomic::AtomicU64::new(0);
        for batch in scenarios.chunks(6) {
            std::thread::scope(|s| {
                for sc in batch {
                    let (found, judged, inconclusive) = (&found, &judged, &inconclusive);
                    s.spawn(move || {
                        let run = || crate::checks::c06_http::run(sc);
                        match run() {
                            Ok(n) => {
                                judged.fetch_add(u64::from(n), std::sync::atomic::Ordering::Relaxed);
                            }
                            Err((sig, _)) if sig == "inconclusive" => {
                                inconclusive.fetch_add(1, std::sync::atomic::Ordering::Relaxed);
                            }
                            // real time: only a failure that repeats counts
                            Err((sig, msg)) => match run() {
                                Err((sig2, msg2)) if sig2 == sig => {
                                    let case = Case {
                                        cfg: ConnCfg::default(),
                                        intent: 1,
                                        name: String::new(),
                                        uuid: uuid::Uuid::nil(),
                                        host: String::new(),
                                        port: 0,
                                        ping: 0,
                                        session_cookie: false,
                                        auth_cookie: false,
                                        adapters: AdapterScript::default(),
                                        items: vec![],
                                        select_seed: 0,
                                        slow: None,
                                        http_status: Some(sc.clone()),
                                    };
                                    found.lock().unwrap().push((sig, format!("{msg2} (first run: {msg})"), serde_json::to_value(&case).unwrap()));
                                }
                                _ => {
                                    inconclusive.fetch_add(1, std::sync::atomic::Ordering::Relaxed);
                                }
                            },
                        }
                    });
                }
            });
        }
        stats.set_extra("http_status_adapter_scenarios", serde_json::json!(scenarios.len()));
        stats.set_extra("http_status_adapter_pings_judged", serde_json::json!(judged.load(std::sync::atomic::Ordering::Relaxed)));
        stats.set_extra("http_status_adapter_scenarios_inconclusive", serde_json::json!(inconclusive.load(std::sync::atomic::Ordering::Relaxed)));
        stats.evaluations.fetch_add(scenarios.len() as u64, std::sync::atomic::Ordering::Relaxed);
        found.into_inner().unwrap()
    }
    fn rule(&self) -> String {
        "sequences of 1-12 serverbound frames: the legal next packet (weight 1/2), any serverbound packet of any phase with generated fields, raw frames with unknown or arbitrary ids, repeats; handshake next-state in {-1,0,1,2,3,4,2^31-1}; status value with every optional field present or absent, or an error; ping payload any u64. extra: 6 (quick) / 48 (thorough) real-time scenarios with the status service behind the HTTP adapter of a passage child process (successive refreshes answered with a status, null, an error or only after a delay; pings between the refreshes). non-trivial = the sequence contains at least one deviation from the legal flow, or reaches a terminal packet (Pong / Transfer / Disconnect); distinct = distinct case".into()
    }
    fn assumptions(&self) -> Vec<String> {
        vec![
            "the model works at wire level: (phase, packet id, does the body parse exactly as the packet that id means in this phase); a frame with the expected id whose body has trailing bytes, or a boolean byte outside {0,1}, is unspecified and ends the step-wise comparison".into(),
            "the fate of configuration-phase packets outside the accepted set is not stated: the comparison stops there; global ordering invariants are still checked".into(),
            "status JSON is compared with null-valued keys dropped on both sides".into(),
        ]
    }
    fn sample(&self, case: &Case) -> Value {
        json!({"intent": case.intent, "secret": case.cfg.secret.is_some(), "items": case.items.iter().map(|i| match i { Item::Pkt(p) => format!("Pkt:{}", p.kind()), Item::Enc(e) => format!("Enc:{e:?}").chars().take(24).collect(), Item::Stall(ms) => format!("Stall:{ms}ms"), Item::Raw { id, body } => format!("Raw:{id:#x}/{}B", body.len()), o => format!("{o:?}") }).collect::<Vec<_>>(), "status": case.adapters.status, "auth": case.adapters.auth})
    }
}
