//! C19 — Targets cross the gRPC adapter boundary unchanged.
//!
//! The real `GrpcDiscoveryAdapter` / `GrpcStrategyAdapter` talk to a loopback tonic mock. Oracle:
//! `discover()` returns exactly the mock's targets (identifier, parsed socket address, metadata map);
//! the `SelectRequest` the mock received carries candidates, player and addresses unaltered;
//! `select()` returns exactly the mock's pick; every malformed reply yields `Err`.

use crate::gens;
use crate::mocks::{self, grpc::GrpcMock, grpc::pb};
use crate::runner::{CaseInfo, Check, Tier, Verdict};
use crate::sim::TargetSpec;
use passage_adapters::discovery::DiscoveryAdapter;
use passage_adapters::strategy::StrategyAdapter;
use passage::adapter::discovery::DynDiscoveryAdapter;
use passage::adapter::strategy::DynStrategyAdapter;
use proptest::prelude::*;
use serde::{Deserialize, Serialize};
use serde_json::{Value, json};
use std::collections::BTreeMap;
use std::net::{IpAddr, SocketAddr};
use std::sync::OnceLock;

/// a target as the remote service spells it
#[derive(Clone, Debug, Serialize, Deserialize, PartialEq)]
pub struct WireTarget {
    pub identifier: String,
    /// None = address field missing
    pub address: Option<(String, u32)>,
    pub meta: BTreeMap<String, String>,
}

#[derive(Clone, Debug, Serialize, Deserialize, PartialEq)]
pub enum Pick {
    Index(u16),
    None,
    Other(WireTarget),
}

#[derive(Clone, Debug, Serialize, Deserialize)]
pub enum Case {
    Discover { targets: Vec<WireTarget> },
    Select { candidates: Vec<TargetSpec>, name: String, uuid: uuid::Uuid, client: String, host: String, port: u16, protocol: i32, pick: Pick },
}

pub struct C19;

struct Env {
    mock: GrpcMock,
    /// built from configuration values, the way `passage::start` builds them
    discovery: DynDiscoveryAdapter,
    strategy: DynStrategyAdapter,
}

fn env() -> &'static Env {
    static E: OnceLock<Env> = OnceLock::new();
    E.get_or_init(|| {
        mocks::rt().block_on(async {
            let mock = GrpcMock::start().await;
            let url = format!("http://127.0.0.1:{}", mock.port);
            let dcfg: passage::config::DiscoveryAdapter = serde_json::from_value(serde_json::json!({"grpc": {"address": url}})).expect("discovery configuration");
            let scfg: passage::config::StrategyAdapter = serde_json::from_value(serde_json::json!({"grpc": {"address": url}})).expect("strategy configuration");
            let discovery = DynDiscoveryAdapter::from_config(dcfg).await.expect("connect discovery");
            let strategy = DynStrategyAdapter::from_config(scfg).await.expect("connect strategy");
            Env { mock, discovery, strategy }
        })
    })
}

fn to_pb(t: &WireTarget) -> pb::Target {
    pb::Target {
        identifier: t.identifier.clone(),
        address: t.address.as_ref().map(|(h, p)| pb::Address { hostname: h.clone(), port: *p }),
        meta: t.meta.iter().map(|(k, v)| pb::MetaEntry { key: k.clone(), value: v.clone() }).collect(),
    }
}

/// the socket address a well-formed wire target denotes
fn well_formed(t: &WireTarget) -> Option<SocketAddr> {
    let (h, p) = t.address.as_ref()?;
    let ip: IpAddr = h.parse().ok()?;
    let port = u16::try_from(*p).ok()?;
    Some(SocketAddr::new(ip, port))
}

fn same(got: &passage_adapters::Target, want: &WireTarget) -> bool {
    let meta: BTreeMap<String, String> = got.meta.iter().map(|(k, v)| (k.clone(), v.clone())).collect();
    got.identifier == want.identifier && Some(got.address) == well_formed(want) && meta == want.meta
}

fn decide(case: &Case, info: &mut CaseInfo) -> Verdict {
    let e = env();
    match case {
        Case::Discover { targets } => {
            info.class("discover");
            {
                let mut s = e.mock.state.lock().unwrap();
                s.targets_reply = targets.iter().map(to_pb).collect();
            }
            let r = mocks::rt().block_on(async { tokio::time::timeout(std::time::Duration::from_secs(20), e.discovery.discover()).await });
            let Ok(r) = r else { return Verdict::Inconclusive("discover() timed out".into()) };
            let malformed: Vec<&WireTarget> = targets.iter().filter(|t| well_formed(t).is_none()).collect();
            let v6 = targets.iter().any(|t| well_formed(t).is_some_and(|a| a.is_ipv6()));
            if v6 {
                info.class("ipv6_target");
            }
            if !malformed.is_empty() {
                info.class("malformed_reply");
            }
            info.nontrivial = v6 || !malformed.is_empty();
            match (r, malformed.first()) {
                (Ok(got), Some(bad)) => Verdict::Fail { sig: "malformed-target-accepted".into(), msg: format!("reply contains the malformed target {bad:?}, discover() returned Ok({:?})", got.iter().map(TargetSpec::from_target).collect::<Vec<_>>()) },
                (Err(_), Some(_)) => Verdict::Pass,
                (Err(err), None) => {
                    let sig = if v6 { "well-formed-ipv6-target-rejected" } else { "well-formed-target-rejected" };
                    Verdict::Fail { sig: sig.into(), msg: format!("every target of the reply is well-formed ({targets:?}), discover() failed: {err}") }
                }
                (Ok(got), None) => {
                    if got.len() != targets.len() || !got.iter().zip(targets).all(|(g, w)| same(g, w)) {
                        return Verdict::Fail { sig: "discovered-target-altered".into(), msg: format!("service returned {targets:?}, discover() returned {:?}", got.iter().map(TargetSpec::from_target).collect::<Vec<_>>()) };
                    }
                    Verdict::Pass
                }
            }
        }
        Case::Select { candidates, name, uuid, client, host, port, protocol, pick } => {
            info.class("select");
            let client_addr: SocketAddr = client.parse().unwrap();
            let picked: Option<WireTarget> = match pick {
                Pick::None => None,
                Pick::Other(t) => Some(t.clone()),
                Pick::Index(i) => {
                    if candidates.is_empty() {
                        None
                    } else {
                        let c = &candidates[crate::runner::idx(*i, candidates.len())];
                        let a: SocketAddr = c.addr.parse().unwrap();
                        Some(WireTarget { identifier: c.identifier.clone(), address: Some((a.ip().to_string(), u32::from(a.port()))), meta: c.meta.clone() })
                    }
                }
            };
            let before = {
                let mut s = e.mock.state.lock().unwrap();
                s.select_reply = picked.as_ref().map(to_pb);
                s.select_requests.len()
            };
            let targets: Vec<passage_adapters::Target> = candidates.iter().map(TargetSpec::to_target).collect();
            let r = mocks::rt().block_on(async { tokio::time::timeout(std::time::Duration::from_secs(20), e.strategy.select(&client_addr, (host, *port), *protocol, (name, uuid), targets)).await });
            let Ok(r) = r else { return Verdict::Inconclusive("select() timed out".into()) };
            let reqs: Vec<pb::SelectRequest> = e.mock.state.lock().unwrap().select_requests[before..].to_vec();
            if reqs.len() != 1 {
                return Verdict::Fail { sig: "select-request-count".into(), msg: format!("{} requests for one select()", reqs.len()) };
            }
            let req = &reqs[0];
            // the request carries everything unaltered
            let ca = req.client_address.as_ref();
            if ca.and_then(|a| a.hostname.parse::<IpAddr>().ok()) != Some(client_addr.ip()) || ca.map(|a| a.port) != Some(u32::from(client_addr.port())) {
                return Verdict::Fail { sig: "request-client-address-altered".into(), msg: format!("client {client_addr}, request carries {ca:?}") };
            }
            let sa = req.server_address.as_ref();
            if sa.map(|a| a.hostname.as_str()) != Some(host.as_str()) || sa.map(|a| a.port) != Some(u32::from(*port)) {
                return Verdict::Fail { sig: "request-server-address-altered".into(), msg: format!("server {host}:{port}, request carries {sa:?}") };
            }
            if req.username != *name || req.user_id.parse::<uuid::Uuid>().ok() != Some(*uuid) {
                return Verdict::Fail { sig: "request-player-altered".into(), msg: format!("player {name}/{uuid}, request carries {}/{}", req.username, req.user_id) };
            }
            if req.protocol != *protocol as u64 {
                return Verdict::Fail { sig: "request-protocol-altered".into(), msg: format!("protocol {protocol}, request carries {}", req.protocol) };
            }
            if req.targets.len() != candidates.len() {
                return Verdict::Fail { sig: "request-candidates-altered".into(), msg: format!("{} candidates, request carries {}", candidates.len(), req.targets.len()) };
            }
            for (g, w) in req.targets.iter().zip(candidates) {
                let wa: SocketAddr = w.addr.parse().unwrap();
                let ga = g.address.as_ref();
                let meta: BTreeMap<String, String> = g.meta.iter().map(|m| (m.key.clone(), m.value.clone())).collect();
                if g.identifier != w.identifier || ga.and_then(|a| a.hostname.parse::<IpAddr>().ok()) != Some(wa.ip()) || ga.map(|a| a.port) != Some(u32::from(wa.port())) || meta != w.meta || g.meta.len() != w.meta.len() {
                    return Verdict::Fail { sig: "request-candidates-altered".into(), msg: format!("candidate {w:?} was sent as {g:?}") };
                }
            }
            let v6 = picked.as_ref().and_then(well_formed).is_some_and(|a| a.is_ipv6()) || candidates.iter().any(|c| c.addr.starts_with('['));
            let bad = picked.as_ref().is_some_and(|p| well_formed(p).is_none());
            if v6 {
                info.class("ipv6_target");
            }
            if bad {
                info.class("malformed_reply");
            }
            info.nontrivial = v6 || bad;
            match (&picked, r) {
                (None, Ok(None)) => Verdict::Pass,
                (None, other) => Verdict::Fail { sig: "pick-none-altered".into(), msg: format!("service picked nothing, select() returned {:?}", other.map(|o| o.map(|t| TargetSpec::from_target(&t))).map_err(|e| e.to_string())) },
                (Some(p), Ok(got)) if bad => Verdict::Fail { sig: "malformed-target-accepted".into(), msg: format!("service picked the malformed target {p:?}, select() returned Ok({:?})", got.map(|t| TargetSpec::from_target(&t))) },
                (Some(_), Err(_)) if bad => Verdict::Pass,
                (Some(p), Err(err)) => {
                    let sig = if well_formed(p).is_some_and(|a| a.is_ipv6()) { "well-formed-ipv6-target-rejected" } else { "well-formed-target-rejected" };
                    Verdict::Fail { sig: sig.into(), msg: format!("service picked {p:?}, select() failed: {err}") }
                }
                (Some(p), Ok(Some(got))) => {
                    if !same(&got, p) {
                        return Verdict::Fail { sig: "picked-target-altered".into(), msg: format!("service picked {p:?}, select() returned {:?}", TargetSpec::from_target(&got)) };
                    }
                    Verdict::Pass
                }
                (Some(p), Ok(None)) => Verdict::Fail { sig: "pick-dropped".into(), msg: format!("service picked {p:?}, select() returned None") },
            }
        }
    }
}

fn host_forms() -> BoxedStrategy<String> {
    prop_oneof![
        4 => gens::ipv4(),
        3 => gens::ipv6(),
        1 => Just("0:0:0:0:0:0:0:1".to_string()),
        1 => Just("2001:DB8::A".to_string()),
        1 => Just("2001:0db8:0000:0000:0000:0000:0000:0001".to_string()),
        1 => Just("::ffff:1.2.3.4".to_string()),
        1 => Just("fe80::1".to_string()),
    ]
    .boxed()
}

fn bad_address() -> BoxedStrategy<Option<(String, u32)>> {
    prop_oneof![
        2 => Just(None),
        2 => proptest::sample::select(vec!["example.com", "", "1.2.3", "1.2.3.4:80", "::g", "1.2.3.4.5", "256.1.1.1", "localhost", "1.2.3.4 "]).prop_map(|h| Some((h.to_string(), 25565u32))),
        2 => (host_forms(), proptest::sample::select(vec![65_536u32, 70_000, u32::MAX, 131_072 + 25_565])).prop_map(|(h, p)| Some((h, p))),
    ]
    .boxed()
}

fn wire_target(malformed_weight: u32) -> BoxedStrategy<WireTarget> {
    let good = (host_forms(), prop_oneof![2 => proptest::sample::select(vec![0u32, 1, 25565, 65535]), 2 => 0u32..=65535]).prop_map(|(h, p)| Some((h, p)));
    let address = prop_oneof![20 => good, malformed_weight => bad_address()];
    (prop_oneof![3 => "[a-z]{1,8}-[0-9]{1,3}", 1 => "\\PC{0,24}"], address, gens::meta()).prop_map(|(identifier, address, meta)| WireTarget { identifier, address, meta }).boxed()
}

impl Check for C19 {
    type Case = Case;
    fn id(&self) -> &'static str {
        "C19"
    }
    fn shards(&self, _tier: Tier) -> usize {
        1
    }
    fn strategy(&self, _tier: Tier) -> BoxedStrategy<Case> {
        let discover = prop_oneof![
            3 => proptest::collection::vec(wire_target(0), 0..=6),
            2 => proptest::collection::vec(wire_target(4), 1..=6),
        ]
        .prop_map(|targets| Case::Discover { targets });
        let pick = prop_oneof![5 => any::<u16>().prop_map(Pick::Index), 1 => Just(Pick::None), 2 => wire_target(0).prop_map(Pick::Other), 2 => wire_target(40).prop_map(Pick::Other),
            // a target message that is present but entirely empty (no identifier, no address, no metadata): malformed, not "none"
            1 => Just(Pick::Other(WireTarget { identifier: String::new(), address: None, meta: Default::default() }))];
        let select = (gens::targets(6), gens::name(), gens::uuid(), gens::client_addr(), gens::host(), gens::port(), 0i32..=100_000, pick)
            .prop_map(|(candidates, name, uuid, client, host, port, protocol, pick)| Case::Select { candidates, name, uuid, client, host, port, protocol, pick });
        prop_oneof![discover, select].boxed()
    }
    fn cases(&self, tier: Tier) -> u64 {
        tier.pick(4_000, 200_000)
    }
    fn run(&self, case: &Case) -> (Verdict, CaseInfo) {
        let mut info = CaseInfo::default();
        let v = decide(case, &mut info);
        (v, info)
    }
    fn rule(&self) -> String {
        "discovery replies of 0-6 targets (identifier any Unicode; host as dotted quad or IPv6 in compressed, full, upper-case and v4-mapped forms; ports 0-65535; metadata maps), malformed replies (address missing; host example.com / empty / 1.2.3 / 1.2.3.4:80 / ::g / 256.1.1.1; port 65536 … 2^32-1); strategy calls with candidate lists, player, client address v4/v6, server host/port, the service picking an index / nothing / another target / a malformed target. non-trivial = at least one IPv6 target or a malformed reply; distinct = distinct case".into()
    }
    fn assumptions(&self) -> Vec<String> {
        vec![
            "server stubs are generated from the repository's own .proto files at harness build time".into(),
            "a host is well-formed iff std's IpAddr parser accepts it; bracketed hosts, zone ids and leading-zero octets are in neither class and are not generated".into(),
            "metadata keys are unique per target (a repeated key has no stated meaning)".into(),
        ]
    }
    fn sample(&self, case: &Case) -> Value {
        json!(case)
    }
}
