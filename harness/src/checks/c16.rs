//! C16 — One stalled or hostile client never delays another.
//!
//! The real `Listener` (with/without PROXY protocol and rate limiting) holds a generated set of
//! clients that stall at generated points — before the PROXY header, inside it, mid-frame, after the
//! handshake, mid-login, logged in but silent, not reading. Then one well-behaved client performs a
//! status exchange. Oracle: it is answered within a bound that does not depend on the others (5 s,
//! where the undisturbed exchange takes milliseconds); a miss is re-run with and without the stalling
//! clients and is a violation only if the control is fast and the disturbed run is slow again.

use crate::net::{self, ListenerCfg, NetClient, NetScript};
use crate::refcodec::Pkt;
use crate::runner::{CaseInfo, Check, Tier, Verdict};
use crate::sim;
use proptest::prelude::*;
use serde::{Deserialize, Serialize};
use std::net::SocketAddr;
use std::time::{Duration, Instant};

#[derive(Clone, Debug, Serialize, Deserialize, PartialEq)]
pub enum Stall {
    /// connected, sends nothing (with PROXY on: before the header)
    Silent,
    /// sends only a part of the PROXY header (PROXY on) or of the handshake frame (PROXY off)
    InsideFirstMessage(u8),
    /// header complete, then half a handshake frame
    MidFrame,
    /// handshake sent, then nothing
    AfterHandshake,
    /// login up to the Encryption Request, never answers it
    MidLogin,
    /// fully logged in, waiting for routing, never answers a keep-alive
    LoggedInSilent,
    /// floods status requests and never reads
    NotReading,
    /// (rate limiting on) one address connects more often than its limit allows, so that it is refused at least once
    OverLimit,
    /// connects and resets at once (SO_LINGER 0), many times: connections that are already dead when they are accepted
    ResetInQueue,
}

#[derive(Clone, Debug, Serialize, Deserialize)]
pub struct Case {
    pub proxy: bool,
    pub limiter: bool,
    pub stallers: Vec<Stall>,
    pub good_v2: bool,
    /// instead of one well-behaved client: this many arrive in the same instant, at the moment the limiter's
    /// periodic clean-up of (prefill x 1000) idle addresses is due
    #[serde(default)]
    pub crowd: Option<Crowd>,
}

#[derive(Clone, Debug, Serialize, Deserialize, PartialEq)]
pub struct Crowd {
    pub n: u8,
    pub prefill_k: u16,
    pub window_ms: u16,
    /// the tracked addresses visited *recently* (the limiter itself is older than two windows): they survive the
    /// clean-up, and the time to serve the crowd is compared with the same crowd on a limiter that tracks nothing
    #[serde(default)]
    pub fresh: bool,
}

pub struct C16;

const BOUND: Duration = Duration::from_secs(5);

fn header(v2: bool, port: u16, n: u16) -> Vec<u8> {
    let src: SocketAddr = format!("203.0.{}.{}:{}", 113 + n / 200, 1 + n % 200, 30000 + n).parse().unwrap();
    let dst: SocketAddr = format!("127.0.0.1:{port}").parse().unwrap();
    if v2 { net::proxy_v2(src, dst) } else { net::proxy_v1(src, dst) }
}

/// opens the stalling clients; they are kept alive by the returned vector
fn open_stallers(case: &Case, port: u16) -> Vec<NetClient> {
    let mut held = Vec::new();
    for (i, st) in case.stallers.iter().enumerate() {
        let Ok(mut c) = NetClient::connect(port) else { continue };
        let h = header(i % 2 == 0, port, i as u16);
        let hs = Pkt::Handshake { protocol: 770, host: "stall.example.org".into(), port: 25565, next: 2 }.frame();
        let t = Duration::from_secs(3);
        match st {
            Stall::ResetInQueue => {
                use std::os::fd::AsRawFd;
                drop(c);
                for _ in 0..40 {
                    // from an address of its own: the resets must not use up the well-behaved client's rate-limit budget
                    if let Ok(s) = net::connect_from("127.0.0.4", port) {
                        let l = libc::linger { l_onoff: 1, l_linger: 0 };
                        unsafe {
                            libc::setsockopt(s.as_raw_fd(), libc::SOL_SOCKET, libc::SO_LINGER, &l as *const libc::linger as *const libc::c_void, std::mem::size_of::<libc::linger>() as libc::socklen_t);
                        }
                        drop(s);
                    }
                }
                continue;
            }
            Stall::OverLimit => {
                // the limit is 2 per announced address with PROXY on, 50 for the peer address otherwise
                let (n, ip) = if case.proxy { (4, "127.0.0.1") } else { (53, "127.0.0.3") };
                drop(c);
                for _ in 0..n {
                    let Ok(stream) = net::connect_from(ip, port) else { continue };
                    let Ok(mut x) = NetClient::from_stream(stream) else { continue };
                    if case.proxy {
                        let _ = x.write_raw(&header(true, port, 700));
                    }
                    let _ = x.write_raw(&hs[..hs.len() / 2]);
                    held.push(x);
                }
                continue;
            }
            Stall::Silent => {}
            Stall::InsideFirstMessage(frac) => {
                let first = if case.proxy { h.clone() } else { hs.clone() };
                let n = (first.len() * usize::from(*frac) / 256).clamp(1, first.len() - 1);
                let _ = c.write_raw(&first[..n]);
            }
            other => {
                if case.proxy {
                    let _ = c.write_raw(&h);
                }
                match other {
                    Stall::MidFrame => {
                        let _ = c.write_raw(&hs[..hs.len() / 2]);
                    }
                    Stall::AfterHandshake => {
                        let _ = c.write_raw(&hs);
                    }
                    Stall::MidLogin => {
                        let _ = c.send(&Pkt::Handshake { protocol: 770, host: "h".into(), port: 25565, next: 2 });
                        let _ = c.send(&Pkt::LoginStart { name: "Staller".into(), uuid: uuid::Uuid::from_u128(16) });
                        loop {
                            match c.recv(t) {
                                Ok(Pkt::LoginCookieRequest { key }) => {
                                    let _ = c.send(&Pkt::LoginCookieResponse { key, payload: None });
                                }
                                _ => break,
                            }
                        }
                    }
                    Stall::LoggedInSilent => {
                        if c.login_until_success(2, "Silent", None, t).is_ok() {
                            let _ = c.send(&Pkt::LoginAck);
                            let _ = c.send(&sim::client_information("en_us"));
                        }
                    }
                    Stall::NotReading => {
                        c.phase = crate::refcodec::Phase::Status;
                        let _ = c.send(&Pkt::Handshake { protocol: 770, host: "h".into(), port: 25565, next: 1 });
                        let _ = c.send(&Pkt::StatusRequest);
                        let _ = c.stream.set_write_timeout(Some(Duration::from_millis(50)));
                        for _ in 0..200 {
                            if c.send(&Pkt::StatusRequest).is_err() {
                                break;
                            }
                        }
                    }
                    _ => {}
                }
            }
        }
        held.push(c);
    }
    held
}

/// one run: returns how long the well-behaved client took (None = not answered within the bound)
fn one_run(case: &Case, with_stallers: bool) -> Option<Duration> {
    let cfg = ListenerCfg {
        proxy: case.proxy.then_some((true, true)),
        // with PROXY on every client announces its own source address, so a small per-address budget must not
        // make the stalling clients matter to the well-behaved one; with PROXY off all come from 127.0.0.1
        limiter: case.limiter.then_some((Duration::from_secs(1000), if case.proxy { 2 } else if case.stallers.contains(&Stall::OverLimit) { 50 } else { 1000 })),
        timeout: Duration::from_secs(30),
        ..Default::default()
    };
    let run = net::start_listener(&cfg, NetScript { discovery_ms: None, ..Default::default() }, 2);
    let held = if with_stallers { open_stallers(case, run.port) } else { Vec::new() };
    std::thread::sleep(Duration::from_millis(10));
    let t0 = Instant::now();
    let took = (|| {
        let mut good = NetClient::connect(run.port).ok()?;
        if case.proxy {
            good.write_raw(&header(case.good_v2, run.port, 999)).ok()?;
        }
        good.status_exchange("good.example.org", BOUND).ok()?;
        Some(t0.elapsed())
    })();
    drop(held);
    // the stalled connections end when their sockets close; do not wait for a blocked accept loop
    run.stop.cancel();
    std::mem::forget(run);
    took
}

/// the crowd run: returns the clients that were not answered within the bound
fn crowd_run(case: &Case, crowd: &Crowd, n: usize) -> Result<Vec<String>, String> {
    crowd_run_timed(case, crowd, n, usize::from(crowd.prefill_k) * 1000).map(|(m, _)| m)
}

/// returns the clients that were not answered within the bound, and the time until the last one was answered
fn crowd_run_timed(case: &Case, crowd: &Crowd, n: usize, prefill: usize) -> Result<(Vec<String>, Duration), String> {
    let window = Duration::from_millis(u64::from(crowd.window_ms));
    let cfg = ListenerCfg { proxy: case.proxy.then_some((true, true)), limiter: Some((window, 100_000)), timeout: Duration::from_secs(30), limiter_prefill: prefill, limiter_prefill_fresh: crowd.fresh, ..Default::default() };
    let run = net::start_listener(&cfg, NetScript { discovery_ms: None, ..Default::default() }, 4);
    let held = open_stallers(case, run.port);
    // the clean-up is due two windows after the limiter was created
    if !crowd.fresh {
        std::thread::sleep(window * 2 + Duration::from_millis(30));
    }
    let t_start = Instant::now();
    let barrier = std::sync::Barrier::new(n);
    let port = run.port;
    let missed: Vec<String> = std::thread::scope(|s| {
        let hs: Vec<_> = (0..n)
            .map(|i| {
                let barrier = &barrier;
                s.spawn(move || {
                    barrier.wait();
                    let r = (|| {
                        let mut good = NetClient::connect(port).map_err(|e| e.to_string())?;
                        if case.proxy {
                            good.write_raw(&header(i % 2 == 0, port, 1000 + i as u16)).map_err(|e| e.to_string())?;
                        }
                        good.status_exchange("crowd.example.org", BOUND).map_err(|e| format!("{e:?} after {} bytes", good.received))
                    })();
                    r.err().map(|e| format!("client #{i}: {e}"))
                })
            })
            .collect();
        hs.into_iter().filter_map(|h| h.join().expect("crowd thread")).collect()
    });
    let took = t_start.elapsed();
    drop(held);
    run.stop.cancel();
    std::mem::forget(run);
    Ok((missed, took))
}

fn decide(case: &Case, info: &mut CaseInfo) -> Verdict {
    if let Some(crowd) = &case.crowd {
        info.nontrivial = true;
        info.class("crowd_arrives_while_limiter_cleanup_is_due");
        info.class(if case.proxy { "proxy:on" } else { "proxy:off" });
        let n = usize::from(crowd.n.max(2));
        if crowd.fresh {
            info.class("crowd_vs_recently_seen_addresses");
            // first the admission itself, without sockets: on a limiter older than two windows, admitting the k-th
            // recently seen address must not cost in proportion to k
            let admitted_cell = std::cell::Cell::new(0usize);
            let cost = |k: usize| -> (Duration, Duration, bool) {
                use passage_protocol::rate_limiter::RateLimiter;
                use std::net::{IpAddr, Ipv6Addr};
                let window = Duration::from_millis(u64::from(crowd.window_ms));
                let mut rl = RateLimiter::<IpAddr>::new(window, 100_000);
                std::thread::sleep(window * 2 + Duration::from_millis(5));
                let batch = 2000usize;
                let t0 = Instant::now();
                let mut times: Vec<Duration> = Vec::new();
                // medians of nine batches: a single re-hash of the map or one periodic clean-up does not count
                let median = |v: &[Duration]| -> Duration {
                    let mut w = v.to_vec();
                    w.sort();
                    w.get(w.len() / 2).copied().unwrap_or_default()
                };
                let mut i = 0usize;
                while i < k {
                    let tb = Instant::now();
                    for j in i..(i + batch).min(k) {
                        rl.enqueue(IpAddr::V6(Ipv6Addr::from(0x2001_0db8_0001_0000_0000_0000_0000_0000u128 + j as u128)));
                    }
                    times.push(tb.elapsed());
                    i += batch;
                    if t0.elapsed() > Duration::from_secs(6) {
                        admitted_cell.set(i.min(k));
                        let n = times.len();
                        return (median(&times[1.min(n)..10.min(n)]), median(&times[n.saturating_sub(9)..]), false);
                    }
                }
                let n = times.len();
                (median(&times[1.min(n)..10.min(n)]), median(&times[n.saturating_sub(9)..]), true)
            };
            let k = usize::from(crowd.prefill_k) * 1000;
            // decided by the cost of the last batches relative to the first ones only: a measurement that the 6 s budget
            // cut off (a loaded machine) is judged on the batches it did complete - on an implementation whose cost
            // grows with the addresses seen those are the expensive ones - and is never a violation by itself
            // A measurement cut off by the budget is additionally compared with a control on the same machine under the
            // same load: as many admissions as the aged limiter managed in its 6 s, on a limiter whose clean-up never
            // becomes due (window of an hour). The amortised clean-up costs a small constant factor; twenty times the
            // control plus a second is cost that grows with the addresses seen.
            let control = |admitted: usize| -> Duration {
                use passage_protocol::rate_limiter::RateLimiter;
                use std::net::{IpAddr, Ipv6Addr};
                let mut rl = RateLimiter::<IpAddr>::new(Duration::from_secs(3600), 100_000);
                let t0 = Instant::now();
                for j in 0..admitted {
                    rl.enqueue(IpAddr::V6(Ipv6Addr::from(0x2001_0db8_0002_0000_0000_0000_0000_0000u128 + j as u128)));
                    if j % 2000 == 0 && t0.elapsed() > Duration::from_secs(6) {
                        break;
                    }
                }
                t0.elapsed()
            };
            let grows = |(first, last, done): (Duration, Duration, bool)| {
                last > first * 25 + Duration::from_millis(40) || (!done && Duration::from_secs(6) > control(admitted_cell.get()) * 20 + Duration::from_secs(1))
            };
            let m1 = cost(k);
            if !m1.2 {
                info.class("admission_cost_measurement_cut_off_by_budget");
            }
            if grows(m1) {
                let m2 = cost(k);
                if grows(m2) {
                    return Verdict::Fail {
                        sig: "admission-cost-grows-with-addresses-seen".into(),
                        msg: format!("limiter older than two windows, {k} distinct addresses admitted one after the other: 2000 admissions took {:?} / {:?} at the beginning and {:?} / {:?} at the end (medians of nine batches) (completed within 6 s: {} / {})", m1.0, m2.0, m1.1, m2.1, m1.2, m2.2),
                    };
                }
            }
            // the same crowd on a limiter that tracks nothing (control) and on one that tracks many recently seen
            // addresses: serving the crowd must not take longer in proportion to what other addresses did
            let prefill = usize::from(crowd.prefill_k) * 1000;
            let measure = || -> Result<(Duration, Duration, Vec<String>), String> {
                let (m0, control) = crowd_run_timed(case, crowd, n, 0)?;
                if !m0.is_empty() {
                    return Err(format!("control crowd not served: {m0:?}"));
                }
                let (m1, disturbed) = crowd_run_timed(case, crowd, n, prefill)?;
                Ok((control, disturbed, m1))
            };
            let slow = |c: Duration, d: Duration| d > c * 3 + Duration::from_millis(300);
            return match measure() {
                Err(e) => Verdict::Inconclusive(e),
                Ok((c, d, m)) if m.is_empty() && !slow(c, d) => Verdict::Pass,
                Ok((c1, d1, m1)) => match measure() {
                    Ok((c2, d2, m2)) if !m2.is_empty() || slow(c2, d2) => Verdict::Fail {
                        sig: "service-time-grows-with-addresses-seen".into(),
                        msg: format!("{n} well-behaved clients arriving together: served in {c1:?} / {c2:?} when the limiter tracks nothing, in {d1:?} / {d2:?} when it tracks {prefill} recently seen addresses (not served: {m1:?} / {m2:?}; proxy {})", case.proxy),
                    },
                    Ok(_) => Verdict::Inconclusive("the slowdown did not reproduce".into()),
                    Err(e) => Verdict::Inconclusive(e),
                },
            };
        }
        return match crowd_run(case, crowd, n) {
            Ok(m) if m.is_empty() => Verdict::Pass,
            Ok(first) => {
                // control: one client alone under the same conditions; then the crowd again
                let alone = crowd_run(case, crowd, 1);
                let again = crowd_run(case, crowd, n);
                match (alone, again) {
                    (Ok(a), Ok(b)) if a.is_empty() && !b.is_empty() => Verdict::Fail {
                        sig: "well-behaved-client-not-served-while-others-connect".into(),
                        msg: format!("{n} well-behaved clients connecting in the same instant (limiter tracking {} idle addresses, clean-up due, proxy {}): not served within {BOUND:?}: {:?}; second run: {:?}; a single client alone is served", u32::from(crowd.prefill_k) * 1000, case.proxy, first, b),
                    },
                    (Ok(a), _) if !a.is_empty() => Verdict::Inconclusive("a single client alone was not served either".into()),
                    _ => Verdict::Inconclusive("the miss did not reproduce".into()),
                }
            }
            Err(e) => Verdict::Inconclusive(e),
        };
    }
    let pre_header = case.proxy && case.stallers.iter().any(|s| matches!(s, Stall::Silent | Stall::InsideFirstMessage(_)));
    info.nontrivial = pre_header || case.stallers.len() >= 5;
    info.class(if case.proxy { "proxy:on" } else { "proxy:off" });
    info.class(if case.limiter { "limiter:on" } else { "limiter:off" });
    if pre_header {
        info.class("stall_before_proxy_header_complete");
    }
    for s in &case.stallers {
        info.class(format!("stall:{s:?}").split('(').next().unwrap().to_string());
    }
    match one_run(case, true) {
        Some(_) => Verdict::Pass,
        None => {
            // control: the same configuration without the stalling clients, then the disturbed run again
            let control = one_run(case, false);
            let again = one_run(case, true);
            match (control, again) {
                (Some(c), None) => {
                    let sig = if pre_header { "well-behaved-client-delayed:peer-silent-before-completing-proxy-header" } else { "well-behaved-client-delayed" };
                    Verdict::Fail { sig: sig.into(), msg: format!("with {} stalling clients ({:?}) the well-behaved client was not answered within {BOUND:?} (twice); alone it took {c:?} (proxy {}, limiter {})", case.stallers.len(), case.stallers, case.proxy, case.limiter) }
                }
                (None, _) => Verdict::Inconclusive("the control run without stalling clients was slow as well".into()),
                (Some(_), Some(_)) => Verdict::Inconclusive("the delay did not reproduce".into()),
            }
        }
    }
}

impl Check for C16 {
    type Case = Case;
    fn id(&self) -> &'static str {
        "C16"
    }
    fn shards(&self, _tier: Tier) -> usize {
        8
    }
    fn strategy(&self, _tier: Tier) -> BoxedStrategy<Case> {
        let stall = prop_oneof![
            3 => Just(Stall::Silent),
            3 => any::<u8>().prop_map(Stall::InsideFirstMessage),
            2 => Just(Stall::MidFrame),
            2 => Just(Stall::AfterHandshake),
            2 => Just(Stall::MidLogin),
            1 => Just(Stall::LoggedInSilent),
            1 => Just(Stall::NotReading),
            1 => Just(Stall::OverLimit),
            1 => Just(Stall::ResetInQueue),
        ];
        let crowd = (16u8..64, 100u16..400, 100u16..250, prop::bool::weighted(0.35)).prop_map(|(n, prefill_k, window_ms, fresh)| if fresh { Crowd { n: n.max(48), prefill_k: 1500 + prefill_k * 2, window_ms, fresh } } else { Crowd { n, prefill_k, window_ms, fresh } });
        (any::<bool>(), any::<bool>(), proptest::collection::vec(stall, 1..20), any::<bool>(), proptest::option::weighted(0.05, crowd))
            .prop_map(|(proxy, limiter, mut stallers, good_v2, crowd)| {
                if crowd.is_some() {
                    stallers.truncate(3);
                }
                Case { proxy, limiter, stallers, good_v2, crowd }
            })
            .boxed()
    }
    fn max_shrink_iters(&self) -> u32 {
        12
    }
    fn cases(&self, tier: Tier) -> u64 {
        tier.pick(800, 5_000)
    }
    fn run(&self, case: &Case) -> (Verdict, CaseInfo) {
        let mut info = CaseInfo::default();
        let v = decide(case, &mut info);
        (v, info)
    }
    fn rule(&self) -> String {
        "PROXY on/off x rate limiting on/off; 1-19 stalling clients, each stopping at a generated point (silent before the PROXY header, inside the header / first frame, mid-frame, after the handshake, mid-login, logged in and silent, flooding without reading, one address exceeding its rate limit, connections reset before they are accepted); then one well-behaved client (valid v1 or v2 header if PROXY is on) performs a status exchange; in 5 % of the cases instead 16-63 well-behaved clients arrive in the same instant while the limiter's clean-up of 100k-400k idle addresses is due, and every one of them must be served. non-trivial = at least one client stalls before completing its PROXY header, or at least five stall elsewhere; distinct = distinct case".into()
    }
    fn assumptions(&self) -> Vec<String> {
        vec![
            "bounded-time safety check on real sockets: 5 s bound where the undisturbed exchange takes milliseconds; a miss counts only if it reproduces and the control run without stalling clients is fast, otherwise inconclusive".into(),
            "the connection timeout is 30 s and discovery never completes, so stalled clients stay connected for the whole scenario".into(),
        ]
    }
}
