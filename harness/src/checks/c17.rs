//! C17 — Shutdown drains in-flight connections and serves no new ones.
//!
//! The real `Listener` runs on loopback with a discovery adapter of 50-300 ms real latency. A
//! generated set of in-flight clients is driven to generated progress points (synchronised on
//! received packets), then shutdown is requested, then late clients connect. Oracle: every in-flight
//! cooperating client still gets its normal outcome, `listen` returns, not before the last backend
//! call it was waiting for could complete and not later than the connection timeout, and late
//! clients never receive a protocol byte.

use crate::net::{self, ListenerCfg, NetClient, NetScript};
use crate::refcodec::Pkt;
use crate::runner::{CaseInfo, Check, Tier, Verdict};
use crate::sim;
use proptest::prelude::*;
use serde::{Deserialize, Serialize};
use std::time::{Duration, Instant};

#[derive(Clone, Debug, Serialize, Deserialize, PartialEq)]
pub enum Progress {
    /// connected and accepted, nothing sent yet; performs a status exchange after the shutdown request
    JustAccepted,
    /// status request answered, ping still to be sent
    MidStatus,
    /// received the Encryption Request, answers it after the shutdown request
    MidLogin,
    /// everything sent, waiting for the backend (discovery) when shutdown is requested
    WaitingBackend,
    /// PROXY protocol only: accepted, but the PROXY header is still outstanding when shutdown is requested; it
    /// follows after this fraction (x/255) of 85 % of the connection timeout, then the client logs in
    BeforeProxyHeader(u8),
}

#[derive(Clone, Debug, Serialize, Deserialize)]
pub struct Case {
    pub discovery_ms: u64,
    pub inflight: Vec<Progress>,
    pub late: u8,
    /// microseconds between `cancel()` returning and the first late connect
    pub late_gap_us: u32,
    pub workers: u8,
    /// extra clients whose Encryption Response (two RSA decryptions of work for the server) is sent
    /// right before the shutdown request, so that the runtime is busy when it arrives
    #[serde(default)]
    pub busy: u8,
    /// PROXY protocol enabled (every client sends a header first)
    #[serde(default)]
    pub proxy: bool,
    /// the whole application instead of a Listener built by the harness: a passage child process (configuration
    /// through the layers), stopped the way an operator stops it (SIGINT)
    #[serde(default)]
    pub via_start: Option<crate::layers::LayerPlan>,
}

pub struct C17;

const T: Duration = Duration::from_secs(5);

enum Client {
    Headerless(NetClient),
    Fresh(NetClient),
    Status(NetClient),
    Login(NetClient),
    Waiting(NetClient, Instant),
}

fn finish_login(c: &mut NetClient) -> Result<(), String> {
    // from Login Success on: acknowledge, send client information, expect the Transfer
    c.send(&Pkt::LoginAck).map_err(|e| e.to_string())?;
    c.send(&sim::client_information("en_us")).map_err(|e| e.to_string())?;
    Ok(())
}

fn await_transfer(c: &mut NetClient) -> Result<(), String> {
    loop {
        match c.recv(T) {
            Ok(Pkt::CfgTransfer { .. }) => return Ok(()),
            Ok(Pkt::CfgKeepAliveCb { id }) => {
                let _ = c.send(&Pkt::CfgKeepAliveSb { id });
            }
            Ok(Pkt::CfgStoreCookie { .. }) => {}
            Ok(other) => return Err(format!("expected Transfer, got {}", other.kind())),
            Err(e) => return Err(format!("expected Transfer, got {e:?} after {} bytes", c.received)),
        }
    }
}

/// the application as a whole: in-flight clients of a passage child process still complete after SIGINT, clients
/// that connect afterwards are not served, and the process ends by itself
fn decide_start(case: &Case, plan: &crate::layers::LayerPlan, info: &mut CaseInfo) -> Verdict {
    info.class("whole_application_stopped_by_sigint");
    info.nontrivial = true;
    let port = net::free_port();
    let cfg = serde_json::json!({
        "address": format!("127.0.0.1:{port}"),
        "timeout": 4,
        "adapters": {
            "discovery": {"fixed": {"targets": [{"identifier": "only", "address": "10.1.2.3:25566", "meta": {}}]}},
            "filter": [],
            "strategy": "any",
            "authentication": {"fixed": {"profile": {"id": "11111111-2222-3333-4444-555555555555", "name": "C17", "properties": []}}},
        }
    });
    let mut inst = match crate::layers::start(&cfg, plan).or_else(|_| crate::layers::start(&cfg, plan)) {
        Ok(i) => i,
        Err(e) => return Verdict::Inconclusive(format!("instance did not start: {e}")),
    };
    // in-flight clients: accepted only / status request answered / Encryption Request received
    let mut clients: Vec<(usize, Client)> = Vec::new();
    for (i, p) in case.inflight.iter().enumerate().take(6) {
        let Ok(mut c) = NetClient::connect(port) else { return Verdict::Inconclusive("connect failed before shutdown".into()) };
        let r: Result<Client, String> = (|| match p {
            Progress::MidStatus => {
                c.phase = crate::refcodec::Phase::Status;
                c.send(&Pkt::Handshake { protocol: 770, host: "h".into(), port: 25565, next: 1 }).map_err(|e| e.to_string())?;
                c.send(&Pkt::StatusRequest).map_err(|e| e.to_string())?;
                match c.recv(T) {
                    Ok(Pkt::StatusResponse { .. }) => Ok(Client::Status(c)),
                    other => Err(format!("status response missing: {other:?}")),
                }
            }
            Progress::MidLogin | Progress::WaitingBackend => {
                c.send(&Pkt::Handshake { protocol: 770, host: "h".into(), port: 25565, next: 2 }).map_err(|e| e.to_string())?;
                c.send(&Pkt::LoginStart { name: "InFlight".into(), uuid: uuid::Uuid::from_u128(17) }).map_err(|e| e.to_string())?;
                loop {
                    match c.recv(T) {
                        Ok(Pkt::LoginCookieRequest { key }) => c.send(&Pkt::LoginCookieResponse { key, payload: None }).map_err(|e| e.to_string())?,
                        Ok(Pkt::EncryptionRequest { .. }) => return Ok(Client::Login(c)),
                        other => return Err(format!("{other:?}")),
                    }
                }
            }
            _ => Ok(Client::Fresh(c)),
        })();
        match r {
            Ok(cl) => clients.push((i, cl)),
            Err(e) => return Verdict::Inconclusive(format!("setup before shutdown failed: {e}")),
        }
    }
    std::thread::sleep(Duration::from_millis(20));
    // ---- the operator stops the application
    inst.interrupt();
    let stopped_at = Instant::now();
    std::thread::sleep(Duration::from_millis(60));
    // a client that connects now must not be served
    let mut late_served = None;
    for i in 0..case.late.min(3) {
        if let Ok(mut c) = NetClient::connect(port) {
            let r = c.status_exchange("late.example.org", Duration::from_millis(300));
            if c.received > 0 || r.is_ok() {
                late_served = Some(format!("late client #{i} (connected 60 ms after SIGINT) received {} bytes: {:?}", c.received, r));
            }
        }
    }
    // the in-flight clients go on
    let mut failure = None;
    for (i, cl) in clients {
        let r: Result<(), String> = match cl {
            Client::Fresh(mut c) => c.status_exchange("fresh.example.org", T).map_err(|e| format!("status exchange of an accepted connection failed: {e:?}")),
            Client::Status(mut c) => {
                let _ = c.send(&Pkt::StatusPing { payload: 9 });
                match c.recv(T) {
                    Ok(Pkt::StatusPong { payload: 9 }) => Ok(()),
                    other => Err(format!("pong missing: {other:?}")),
                }
            }
            Client::Login(mut c) => (|| {
                let secret16: [u8; 16] = *b"net-shared-secre";
                let (key, token, _) = c.enc_req.clone().ok_or("no encryption request")?;
                let key = crate::refcrypto::RsaPub::from_spki_der(&key).ok_or("key")?;
                c.send(&Pkt::EncryptionResponse { secret: key.encrypt_pkcs1(&secret16, &[7]).unwrap(), token: key.encrypt_pkcs1(&token, &[7]).unwrap() }).map_err(|e| e.to_string())?;
                c.enable_encryption(&secret16);
                match c.recv(T) {
                    Ok(Pkt::LoginSuccess { .. }) => {}
                    other => return Err(format!("login success missing: {other:?}")),
                }
                finish_login(&mut c)?;
                await_transfer(&mut c)
            })(),
            _ => Ok(()),
        };
        if let Err(e) = r {
            failure.get_or_insert(format!("in-flight client #{i} ({:?}): {e}", case.inflight[i]));
        }
    }
    let exited = inst.wait_exit(Duration::from_secs(8));
    info.class(format!("inflight:{}", case.inflight.len().min(6)));
    if let Some(l) = late_served {
        return Verdict::Fail { sig: "late-connection-served".into(), msg: format!("{l} [{}]", inst.description) };
    }
    if let Some(f) = failure {
        return Verdict::Fail { sig: "inflight-connection-not-completed".into(), msg: format!("after SIGINT to the application: {f} [{}]", inst.description) };
    }
    if exited.is_none() {
        return Verdict::Fail { sig: "application-did-not-stop".into(), msg: format!("{:?} after SIGINT and after every in-flight client had finished, the process was still running", stopped_at.elapsed()) };
    }
    Verdict::Pass
}

fn decide(case: &Case, info: &mut CaseInfo) -> Verdict {
    if let Some(plan) = &case.via_start {
        return decide_start(case, plan, info);
    }
    let late_header = case.proxy && case.inflight.iter().any(|p| matches!(p, Progress::BeforeProxyHeader(_)));
    // the header phase and the protocol phase each get the connection timeout; keep it short when a client uses both
    let timeout = if late_header { Duration::from_millis(1500) } else { Duration::from_secs(4) };
    let discovery_ms = if late_header { case.discovery_ms.max(600) } else { case.discovery_ms };
    let cfg = ListenerCfg { timeout, proxy: case.proxy.then_some((true, true)), ..Default::default() };
    let run = net::start_listener(&cfg, NetScript { discovery_ms: Some(discovery_ms), ..Default::default() }, usize::from(case.workers.max(1)));
    let port = run.port;
    let counter = std::sync::atomic::AtomicU16::new(0);
    // connects and (with PROXY protocol) sends the header
    let connect = |with_header: bool| -> std::io::Result<NetClient> {
        let mut c = NetClient::connect(port)?;
        if case.proxy && with_header {
            let n = counter.fetch_add(1, std::sync::atomic::Ordering::Relaxed) + 1;
            let src: std::net::SocketAddr = format!("198.51.100.{}:{}", 1 + n % 200, 20000 + n).parse().unwrap();
            c.write_raw(&net::proxy_v2(src, format!("127.0.0.1:{port}").parse().unwrap()))?;
        }
        Ok(c)
    };
    // drive the in-flight clients to their progress points
    let mut clients: Vec<Client> = Vec::new();
    for p in &case.inflight {
        let Ok(mut c) = connect(!matches!(p, Progress::BeforeProxyHeader(_))) else {
            run.shutdown();
            return Verdict::Inconclusive("connect failed before shutdown".into());
        };
        let r: Result<Client, String> = (|| match p {
            Progress::BeforeProxyHeader(_) if case.proxy => Ok(Client::Headerless(c)),
            Progress::JustAccepted | Progress::BeforeProxyHeader(_) => Ok(Client::Fresh(c)),
            Progress::MidStatus => {
                c.phase = crate::refcodec::Phase::Status;
                c.send(&Pkt::Handshake { protocol: 770, host: "h".into(), port: 25565, next: 1 }).map_err(|e| e.to_string())?;
                c.send(&Pkt::StatusRequest).map_err(|e| e.to_string())?;
                match c.recv(T) {
                    Ok(Pkt::StatusResponse { .. }) => Ok(Client::Status(c)),
                    other => Err(format!("no status response before shutdown: {other:?}")),
                }
            }
            Progress::MidLogin => {
                c.send(&Pkt::Handshake { protocol: 770, host: "h".into(), port: 25565, next: 2 }).map_err(|e| e.to_string())?;
                c.send(&Pkt::LoginStart { name: "InFlight".into(), uuid: uuid::Uuid::from_u128(17) }).map_err(|e| e.to_string())?;
                loop {
                    match c.recv(T) {
                        Ok(Pkt::LoginCookieRequest { key }) => c.send(&Pkt::LoginCookieResponse { key, payload: None }).map_err(|e| e.to_string())?,
                        Ok(Pkt::EncryptionRequest { .. }) => return Ok(Client::Login(c)),
                        other => return Err(format!("login did not progress before shutdown: {other:?}")),
                    }
                }
            }
            Progress::WaitingBackend => {
                c.login_until_success(2, "Waiting", None, T).map_err(|e| format!("login before shutdown: {e:?}"))?;
                finish_login(&mut c)?;
                Ok(Client::Waiting(c, Instant::now()))
            }
        })();
        match r {
            Ok(cl) => clients.push(cl),
            Err(e) => {
                run.shutdown();
                return Verdict::Inconclusive(format!("setup before shutdown failed: {e}"));
            }
        }
    }
    // clients that keep the runtime busy at the moment of the shutdown request
    let mut busy_clients: Vec<(NetClient, Pkt)> = Vec::new();
    for _ in 0..case.busy {
        let Ok(mut c) = connect(true) else { break };
        let r: Result<Pkt, String> = (|| {
            c.send(&Pkt::Handshake { protocol: 770, host: "h".into(), port: 25565, next: 2 }).map_err(|e| e.to_string())?;
            c.send(&Pkt::LoginStart { name: "Busy".into(), uuid: uuid::Uuid::from_u128(18) }).map_err(|e| e.to_string())?;
            loop {
                match c.recv(T) {
                    Ok(Pkt::LoginCookieRequest { key }) => c.send(&Pkt::LoginCookieResponse { key, payload: None }).map_err(|e| e.to_string())?,
                    Ok(Pkt::EncryptionRequest { public_key, verify_token, .. }) => {
                        let key = crate::refcrypto::RsaPub::from_spki_der(&public_key).ok_or("key")?;
                        return Ok(Pkt::EncryptionResponse { secret: key.encrypt_pkcs1(b"net-shared-secre", &[7]).unwrap(), token: key.encrypt_pkcs1(&verify_token, &[7]).unwrap() });
                    }
                    other => return Err(format!("{other:?}")),
                }
            }
        })();
        if let Ok(resp) = r {
            busy_clients.push((c, resp));
        }
    }
    // make sure every connection has been accepted (the accept loop is idle)
    std::thread::sleep(Duration::from_millis(20));
    let waiting = clients.iter().filter(|c| matches!(c, Client::Waiting(..))).count();
    for (c, resp) in busy_clients.iter_mut() {
        let _ = c.send(resp);
    }

    // ---- late clients wait (spinning) for the shutdown request, so that their connects follow cancel() within
    // microseconds; then shutdown is requested; late clients and in-flight clients proceed concurrently
    let inflight_progress = case.inflight.clone();
    let go = std::sync::atomic::AtomicBool::new(false);
    let (late_served, results, cancelled_at): (Option<String>, Vec<(usize, Result<(), String>, Option<Instant>)>, Instant) = std::thread::scope(|scope| {
        let connect = &connect;
        let go = &go;
        let late_handles: Vec<_> = (0..case.late)
            .map(|i| {
                scope.spawn(move || {
                    while !go.load(std::sync::atomic::Ordering::Acquire) {
                        std::hint::spin_loop();
                    }
                    if case.late_gap_us > 0 {
                        let until = Instant::now() + Duration::from_micros(u64::from(case.late_gap_us));
                        while Instant::now() < until {
                            std::hint::spin_loop();
                        }
                    }
                    let mut c = connect(true).ok()?;
                    let r = c.status_exchange("late.example.org", Duration::from_millis(400));
                    if c.received > 0 || r.is_ok() {
                        return Some(format!("late client #{i} (its connect() started after cancel() had returned, gap {} us) received {} bytes: {:?}", case.late_gap_us, c.received, r));
                    }
                    None
                })
            })
            .collect();
        std::thread::sleep(Duration::from_millis(2));
        run.stop.cancel();
        go.store(true, std::sync::atomic::Ordering::Release);
        let cancelled_at = Instant::now();
        // the busy clients leave (they are not cooperating clients: they never finish their login)
        drop(busy_clients);
        let handles: Vec<_> = clients
            .into_iter()
            .enumerate()
            .map(|(i, cl)| {
                let progress = inflight_progress[i].clone();
                scope.spawn(move || {
                    let mut due_at: Option<Instant> = None;
                    let r: Result<(), String> = match cl {
                        Client::Headerless(mut c) => (|| {
                            let frac = match &progress {
                                Progress::BeforeProxyHeader(f) => u64::from(*f),
                                _ => 0,
                            };
                            let at = cancelled_at + Duration::from_millis(timeout.as_millis() as u64 * 85 / 100 * frac / 255);
                            while Instant::now() < at {
                                std::thread::sleep(Duration::from_millis(5));
                            }
                            let src: std::net::SocketAddr = format!("198.51.100.250:{}", 4242 + i).parse().unwrap();
                            c.write_raw(&net::proxy_v2(src, format!("127.0.0.1:{port}").parse().unwrap())).map_err(|e| e.to_string())?;
                            c.login_until_success(2, "LateHeader", None, T).map_err(|e| format!("login after a late PROXY header: {e:?}"))?;
                            finish_login(&mut c)?;
                            due_at = Some(Instant::now() + Duration::from_millis(discovery_ms));
                            await_transfer(&mut c)
                        })(),
                        Client::Fresh(mut c) => c.status_exchange("fresh.example.org", T).map_err(|e| format!("status exchange of an accepted connection failed: {e:?}")),
                        Client::Status(mut c) => {
                            let _ = c.send(&Pkt::StatusPing { payload: 9 });
                            match c.recv(T) {
                                Ok(Pkt::StatusPong { payload: 9 }) => Ok(()),
                                other => Err(format!("pong missing: {other:?}")),
                            }
                        }
                        Client::Login(mut c) => (|| {
                            let secret16: [u8; 16] = *b"net-shared-secre";
                            let (key, token, _) = c.enc_req.clone().ok_or("no encryption request")?;
                            let key = crate::refcrypto::RsaPub::from_spki_der(&key).ok_or("key")?;
                            let resp = Pkt::EncryptionResponse { secret: key.encrypt_pkcs1(&secret16, &[7]).unwrap(), token: key.encrypt_pkcs1(&token, &[7]).unwrap() };
                            c.send(&resp).map_err(|e| e.to_string())?;
                            c.enable_encryption(&secret16);
                            match c.recv(T) {
                                Ok(Pkt::LoginSuccess { .. }) => {}
                                other => return Err(format!("login success missing: {other:?}")),
                            }
                            finish_login(&mut c)?;
                            due_at = Some(Instant::now() + Duration::from_millis(discovery_ms));
                            await_transfer(&mut c)
                        })(),
                        Client::Waiting(mut c, since) => {
                            due_at = Some(since + Duration::from_millis(discovery_ms));
                            await_transfer(&mut c)
                        }
                    };
                    (i, r, due_at)
                })
            })
            .collect();
        let results = handles.into_iter().map(|h| h.join().expect("client thread")).collect();
        let late_served = late_handles.into_iter().filter_map(|h| h.join().expect("late thread")).next();
        (late_served, results, cancelled_at)
    });
    let mut last_backend_due: Option<Instant> = None;
    let mut failure: Option<String> = None;
    for (i, r, due) in results {
        if let Some(d) = due {
            last_backend_due = Some(last_backend_due.map_or(d, |x: Instant| x.max(d)));
        }
        if let Err(e) = r {
            failure.get_or_insert(format!("in-flight client #{i} ({:?}): {e}", case.inflight[i]));
        }
    }
    // ---- listen returns
    let t0 = Instant::now();
    let returned = loop {
        if let Some(t) = *run.returned_at.lock().unwrap() {
            break Some(t);
        }
        if t0.elapsed() > 2 * timeout + Duration::from_secs(3) {
            break None;
        }
        std::thread::sleep(Duration::from_millis(2));
    };
    if returned.is_some() {
        run.shutdown();
    } else {
        // leave the stuck listener thread behind; the process ends soon
        std::mem::forget(run);
    }
    if waiting > 0 {
        info.nontrivial = true;
        info.class("inflight_waiting_on_backend_at_shutdown");
    }
    info.class(format!("inflight:{}", case.inflight.len()));
    info.class(if case.late_gap_us == 0 { "late:immediately" } else { "late:after_gap" });
    if case.busy > 0 {
        info.class("runtime_busy_at_shutdown");
    }
    if let Some(f) = failure {
        return Verdict::Fail { sig: "inflight-connection-not-completed".into(), msg: f };
    }
    if let Some(l) = late_served {
        return Verdict::Fail { sig: "late-connection-served".into(), msg: l };
    }
    let Some(returned) = returned else {
        return Verdict::Fail { sig: "listen-did-not-return".into(), msg: format!("listen had not returned {:?} after the shutdown request (connection timeout {timeout:?})", cancelled_at.elapsed()) };
    };
    if let Some(due) = last_backend_due {
        // the backend call of the last in-flight connection cannot have completed before `due`
        if returned + Duration::from_millis(10) < due {
            return Verdict::Fail { sig: "listen-returned-before-inflight-finished".into(), msg: format!("listen returned {:?} before the last in-flight backend call could complete", due - returned) };
        }
    }
    if late_header {
        info.class("proxy_header_completed_after_shutdown_request");
    }
    if returned > cancelled_at + 2 * timeout + Duration::from_secs(2) {
        return Verdict::Fail { sig: "listen-returned-late".into(), msg: format!("listen returned {:?} after the shutdown request", returned - cancelled_at) };
    }
    Verdict::Pass
}

impl Check for C17 {
    type Case = Case;
    fn id(&self) -> &'static str {
        "C17"
    }
    fn shards(&self, _tier: Tier) -> usize {
        8
    }
    fn strategy(&self, _tier: Tier) -> BoxedStrategy<Case> {
        let progress = prop_oneof![2 => Just(Progress::JustAccepted), 2 => Just(Progress::MidStatus), 4 => Just(Progress::MidLogin), 6 => Just(Progress::WaitingBackend), 1 => (200u8..=255).prop_map(Progress::BeforeProxyHeader)];
        (50u64..300, proptest::collection::vec(progress, 0..=8), 1u8..=6, prop_oneof![3 => Just(0u32), 2 => 1u32..300, 1 => 300u32..5000], prop_oneof![2 => Just(1u8), 1 => 2u8..=4], prop_oneof![1 => Just(0u8), 2 => 1u8..=6], prop::bool::weighted(0.4), proptest::option::weighted(0.08, crate::layers::plan_strategy()))
            .prop_map(|(discovery_ms, mut inflight, late, late_gap_us, workers, busy, proxy, via_start)| {
                // at most two clients with an outstanding header (each costs a second of real time)
                let mut seen = 0;
                inflight.retain(|p| {
                    if matches!(p, Progress::BeforeProxyHeader(_)) {
                        seen += 1;
                        seen <= 2 && proxy
                    } else {
                        true
                    }
                });
                Case { discovery_ms, inflight, late, late_gap_us, workers, busy, proxy, via_start }
            })
            .boxed()
    }
    fn max_shrink_iters(&self) -> u32 {
        40
    }
    fn cases(&self, tier: Tier) -> u64 {
        tier.pick(320, 3_000)
    }
    fn run(&self, case: &Case) -> (Verdict, CaseInfo) {
        let mut info = CaseInfo::default();
        let v = decide(case, &mut info);
        (v, info)
    }
    fn rule(&self) -> String {
        "0-8 in-flight clients each driven to a generated progress point (accepted / status request answered / Encryption Request received / everything sent and waiting for a 50-300 ms backend), shutdown requested at that moment, then 1-6 late clients (already spinning on a flag, each on its own thread) connecting 0-5000 us after cancel() returned, listener runtime with 1-4 workers. non-trivial = at least one in-flight connection is waiting on the backend when shutdown is requested; distinct = distinct case".into()
    }
    fn assumptions(&self) -> Vec<String> {
        vec![
            "real sockets and real time: the harness controls which client is where when shutdown is requested, not the kernel's or tokio's scheduling".into(),
            "a late client is one whose connect() starts after cancel() has returned; it may be accepted by the kernel, but must not receive a single byte".into(),
            "'listen returns only after' is checked against the earliest instant the last in-flight backend call can complete (10 ms tolerance)".into(),
        ]
    }
}
