//! C15 — Admission is decided on the effective client address, before any protocol work.
//!
//! The real `Listener` with a rate limiter (no window rolls during a run) and a generated PROXY
//! configuration receives a generated arrival history of connections made one after the other from
//! peers bound to 127.0.0.1/2/3, each with a valid v1/v2 header announcing a source from a small pool,
//! v2 LOCAL, a header of a disabled version, a malformed header or none. Oracle: effective IP,
//! reference limiter in arrival order, zero bytes for refused / headerless connections, and the
//! client address seen by adapters and recorded in issued cookies.

use crate::cookie;
use crate::net::{self, ListenerCfg, NetClient, NetScript, RecvErr};
use crate::refcodec::Pkt;
use crate::runner::{CaseInfo, Check, Tier, Verdict};
use crate::sim;
use proptest::prelude::*;
use serde::{Deserialize, Serialize};
use std::collections::HashMap;
use std::net::{IpAddr, SocketAddr};
use std::time::Duration;

#[derive(Clone, Debug, Serialize, Deserialize, PartialEq)]
pub enum Header {
    None,
    V1(u8),
    V2(u8),
    /// version 2 with the DGRAM transport nibble (still a valid header that announces the addresses)
    V2Dgram(u8),
    V2Local,
    V1Unknown,
    Malformed(u8),
}

#[derive(Clone, Debug, Serialize, Deserialize)]
pub struct Conn {
    pub peer: u8,
    pub header: Header,
    pub full_login: bool,
}

#[derive(Clone, Debug, Serialize, Deserialize)]
pub struct Case {
    pub proxy: Option<(bool, bool)>,
    pub limit: u8,
    pub conns: Vec<Conn>,
    /// instead of a Listener built by the harness: a passage instance (child process) that reads the same
    /// settings from its layered configuration; backend calls are then not observable
    #[serde(default)]
    pub configured: Option<crate::layers::LayerPlan>,
    /// after the history: this many connections announcing one fresh source arrive in the same instant (exactly
    /// `limit` of them are served)
    #[serde(default)]
    pub burst: u8,
    /// after the history (configured instances): 2.2 s later an exhausted source tries again - the window is 1000 s,
    /// not 1000 ms
    #[serde(default)]
    pub retry_after_pause: bool,
}

pub struct C15;

const SOURCES: [&str; 7] = ["203.0.113.5:40001", "203.0.113.5:40999", "203.0.113.6:40002", "[2001:db8::5]:40003", "[2001:db8::6]:1", "198.51.100.7:65535", "[::ffff:203.0.113.9]:40004"];
const T: Duration = Duration::from_secs(4);

fn malformed(kind: u8) -> Vec<u8> {
    match kind % 5 {
        0 => b"PROXY TCP4 999.1.1.1 1.1.1.1 1 2\r\n".to_vec(),
        1 => b"PROXX TCP4 1.1.1.1 1.1.1.2 1 2\r\n".to_vec(),
        2 => {
            // v2 signature with an invalid version nibble
            let mut v = net::proxy_v2("1.1.1.1:1".parse().unwrap(), "1.1.1.2:2".parse().unwrap());
            v[12] = 0x31;
            v
        }
        3 => vec![0xAB; 40],
        _ => b"GET / HTTP/1.1\r\nHost: x\r\n\r\n0123456789".to_vec(),
    }
}

enum Expect {
    /// closed without a byte, no budget consumed
    Unserved,
    Effective(SocketAddr),
}

fn decide(case: &Case, info: &mut CaseInfo) -> Verdict {
    let secret = b"c15-secret".to_vec();
    let cfg = ListenerCfg { proxy: case.proxy, limiter: Some((Duration::from_secs(1000), usize::from(case.limit))), timeout: Duration::from_secs(5), secret: Some(secret.clone()), ..Default::default() };
    let mut child = None;
    let mut bare = None;
    if let Some(plan) = &case.configured {
        let mut c = serde_json::json!({
            "address": format!("127.0.0.1:{}", net::free_port()),
            "timeout": 5,
            "auth_secret": String::from_utf8_lossy(&secret),
            "rate_limiter": {"duration": 1000, "limit": case.limit},
            "adapters": {
                "discovery": {"fixed": {"targets": [{"identifier": "only", "address": "10.1.2.3:25565", "meta": {}}]}},
                "filter": [],
                "strategy": "any",
                "authentication": {"fixed": {"profile": {"id": "11111111-2222-3333-4444-555555555555", "name": "C15", "properties": []}}},
            }
        });
        if let Some((v1, v2)) = case.proxy {
            c["proxy_protocol"] = serde_json::json!({"allow_v1": v1, "allow_v2": v2});
        }
        match crate::layers::start(&c, plan).or_else(|_| crate::layers::start(&c, plan)) {
            Ok(l) => child = Some(l),
            Err(e) => return Verdict::Inconclusive(format!("instance did not start: {e}")),
        }
        info.class("configured_instance");
        info.class(format!("proxy_layer:{:?}", plan.proxy));
        info.class(format!("limiter_layer:{:?}", plan.limiter));
    } else {
        bare = Some(net::start_listener(&cfg, NetScript::default(), 2));
    }
    let port = child.as_ref().map(|c| c.port).or(bare.as_ref().map(|r| r.port)).unwrap();
    let how = child.as_ref().map(|c| format!("; instance configured through layers: {}", c.description)).unwrap_or_default();
    let dst: SocketAddr = format!("127.0.0.1:{port}").parse().unwrap();
    let mut admitted: HashMap<IpAddr, usize> = HashMap::new();
    let mut verdict = Verdict::Pass;
    let mut refusals = 0;
    let mut sources_seen = std::collections::BTreeSet::new();
    let mut peers_seen = std::collections::BTreeSet::new();
    for (i, conn) in case.conns.iter().enumerate() {
        let peer_ip = format!("127.0.0.{}", 1 + conn.peer % 3);
        let Ok(stream) = net::connect_from(&peer_ip, port) else {
            verdict = Verdict::Inconclusive(format!("connect from {peer_ip} failed"));
            break;
        };
        let Ok(mut c) = NetClient::from_stream(stream) else { continue };
        let peer = c.local_addr();
        let header_bytes: Vec<u8> = match &conn.header {
            Header::None => vec![],
            Header::V1(s) => net::proxy_v1(SOURCES[*s as usize % SOURCES.len()].parse().unwrap(), dst),
            Header::V2(s) => net::proxy_v2(SOURCES[*s as usize % SOURCES.len()].parse().unwrap(), dst),
            Header::V2Dgram(s) => net::proxy_v2_transport(SOURCES[*s as usize % SOURCES.len()].parse().unwrap(), dst, true),
            Header::V2Local => net::proxy_v2_local(),
            Header::V1Unknown => b"PROXY UNKNOWN\r\n".to_vec(),
            Header::Malformed(k) => malformed(*k),
        };
        let expect = match (case.proxy, &conn.header) {
            (None, _) => Expect::Effective(peer),
            (Some((true, _)), Header::V1(s)) | (Some((_, true)), Header::V2(s) | Header::V2Dgram(s)) => Expect::Effective(SOURCES[*s as usize % SOURCES.len()].parse().unwrap()),
            (Some((_, true)), Header::V2Local) | (Some((true, _)), Header::V1Unknown) => Expect::Effective(peer),
            (Some(_), _) => Expect::Unserved,
        };
        if let (Some(_), Header::V1(s) | Header::V2(s) | Header::V2Dgram(s)) = (case.proxy, &conn.header) {
            sources_seen.insert(*s as usize % SOURCES.len());
            peers_seen.insert(conn.peer % 3);
        }
        if case.proxy.is_some() || !header_bytes.is_empty() {
            // with PROXY off no header is sent at all (a header would be protocol garbage)
            if case.proxy.is_some() {
                let _ = c.write_raw(&header_bytes);
            }
        }
        let what = format!("connection #{i} from peer {peer} with header {:?} (proxy {:?}, limit {}{how})", conn.header, case.proxy, case.limit);
        let served_expected = match &expect {
            Expect::Unserved => false,
            Expect::Effective(a) => {
                let n = admitted.entry(a.ip()).or_insert(0);
                if *n < usize::from(case.limit) {
                    *n += 1;
                    true
                } else {
                    false
                }
            }
        };
        if !served_expected {
            if matches!(expect, Expect::Effective(_)) {
                refusals += 1;
            }
            // must be closed without a single byte
            let r = c.status_exchange("refused.example.org", Duration::from_secs(2));
            if c.received > 0 {
                let sig = if matches!(expect, Expect::Unserved) { "served-without-valid-proxy-header" } else { "served-although-limiter-refuses" };
                verdict = Verdict::Fail { sig: sig.into(), msg: format!("{what}: expected to be closed unserved, but received {} bytes ({r:?})", c.received) };
                break;
            }
            if r == Err(RecvErr::Timeout) {
                verdict = Verdict::Fail { sig: "refused-connection-left-open".into(), msg: format!("{what}: the connection was neither served nor closed within 2 s") };
                break;
            }
            continue;
        }
        let Expect::Effective(effective) = expect else { unreachable!() };
        let before = bare.as_ref().map(|run| run.adapters.calls.lock().unwrap().len()).unwrap_or(0);
        if conn.full_login {
            // full login + routing: adapters and the issued cookie see the effective address
            let r: Result<Vec<u8>, String> = (|| {
                c.login_until_success(2, "C15", None, T).map_err(|e| format!("login: {e:?}"))?;
                c.send(&Pkt::LoginAck).map_err(|e| e.to_string())?;
                c.send(&sim::client_information("en_us")).map_err(|e| e.to_string())?;
                let mut stored = None;
                loop {
                    match c.recv(T) {
                        Ok(Pkt::CfgStoreCookie { key, payload }) if key == cookie::AUTH_KEY => stored = Some(payload),
                        Ok(Pkt::CfgStoreCookie { .. }) => {}
                        // the first (immediate) keep-alive tick may surface at the start of the configuration phase
                        Ok(Pkt::CfgKeepAliveCb { id }) => {
                            let _ = c.send(&Pkt::CfgKeepAliveSb { id });
                        }
                        Ok(Pkt::CfgTransfer { .. }) => return stored.ok_or_else(|| "no authentication cookie before the Transfer".to_string()),
                        other => return Err(format!("routing: {other:?}")),
                    }
                }
            })();
            match r {
                Err(e) => {
                    verdict = Verdict::Fail { sig: "admitted-connection-not-served".into(), msg: format!("{what}: the limiter admits {effective}, but the login failed: {e}") };
                    break;
                }
                Ok(payload) => {
                    if !cookie::tag_ok(&secret, &payload) {
                        verdict = Verdict::Fail { sig: "cookie-bad-tag".into(), msg: what };
                        break;
                    }
                    match cookie::parse_body(&payload[32..]) {
                        Some(p) if p.addr == effective => {}
                        other => {
                            verdict = Verdict::Fail { sig: "cookie-bound-to-other-address".into(), msg: format!("{what}: effective client address {effective}, the issued cookie records {:?}", other.map(|p| p.addr)) };
                            break;
                        }
                    }
                }
            }
        } else {
            if let Err(e) = c.status_exchange("served.example.org", T) {
                verdict = Verdict::Fail { sig: "admitted-connection-not-served".into(), msg: format!("{what}: the limiter admits {effective}, but the status exchange failed: {e:?} after {} bytes", c.received) };
                break;
            }
        }
        // what the backend services saw
        let Some(run) = bare.as_ref() else {
            drop(c);
            continue;
        };
        let calls: Vec<(&'static str, serde_json::Value)> = run.adapters.calls.lock().unwrap()[before..].iter().map(|(_, k, a)| (*k, a.clone())).collect();
        if let Some((k, a)) = calls.iter().find(|(_, a)| a.get("client_addr").is_some_and(|v| v.as_str() != Some(effective.to_string().as_str()))) {
            verdict = Verdict::Fail { sig: "backend-sees-other-address".into(), msg: format!("{what}: effective client address {effective}, the {k} service was given {}", a["client_addr"]) };
            break;
        }
        if !calls.iter().any(|(_, a)| a.get("client_addr").is_some()) {
            verdict = Verdict::Fail { sig: "no-backend-call".into(), msg: format!("{what}: served but no backend service was consulted") };
            break;
        }
        drop(c);
    }
    // ---- a burst of simultaneous connections from one fresh address: the limiter counts every one of them
    if matches!(verdict, Verdict::Pass) && case.burst > 0 {
        info.class("simultaneous_burst_from_one_address");
        let n = usize::from(case.burst);
        let src: SocketAddr = "198.18.0.77:5000".parse().unwrap();
        let proxy_on = case.proxy.is_some_and(|(v1, v2)| v1 || v2);
        // with PROXY off every peer is 127.0.0.x and may already have used its budget: burst from a peer address not used before
        let peer_ip = if proxy_on { "127.0.0.1" } else { "127.0.0.9" };
        let barrier = std::sync::Barrier::new(n);
        let served: usize = std::thread::scope(|s| {
            let hs: Vec<_> = (0..n)
                .map(|_| {
                    let barrier = &barrier;
                    s.spawn(move || {
                        barrier.wait();
                        let Ok(stream) = net::connect_from(peer_ip, port) else { return false };
                        let Ok(mut c) = NetClient::from_stream(stream) else { return false };
                        if let Some((v1, _)) = case.proxy {
                            if proxy_on {
                                let _ = c.write_raw(&if v1 { net::proxy_v1(src, dst) } else { net::proxy_v2(src, dst) });
                            }
                        }
                        c.status_exchange("burst.example.org", Duration::from_secs(3)).is_ok()
                    })
                })
                .collect();
            hs.into_iter().map(|h| usize::from(h.join().unwrap_or(false))).sum()
        });
        let expect = n.min(usize::from(case.limit));
        if case.proxy != Some((false, false)) && served != expect {
            verdict = Verdict::Fail { sig: if served > expect { "more-than-limit-served-in-a-burst" } else { "admitted-connection-not-served" }.into(), msg: format!("{n} simultaneous connections from one fresh address, limit {}: {served} were served, expected {expect} (proxy {:?}{how})", case.limit, case.proxy) };
        }
    }
    // ---- the configured window is 1000 seconds: an exhausted address is still refused a little later
    if matches!(verdict, Verdict::Pass) && case.retry_after_pause && child.is_some() {
        if let Some((ip, _)) = admitted.iter().find(|(_, n)| **n >= usize::from(case.limit)) {
            info.class("exhausted_address_retries_after_2s");
            std::thread::sleep(Duration::from_millis(2200));
            let src = SocketAddr::new(*ip, 41000);
            let proxy_on = case.proxy.is_some_and(|(v1, v2)| v1 || v2);
            let via_peer = !proxy_on;
            let r = (|| {
                let stream = net::connect_from(&if via_peer { ip.to_string() } else { "127.0.0.1".to_string() }, port).ok()?;
                let mut c = NetClient::from_stream(stream).ok()?;
                if let (true, Some((v1, _))) = (proxy_on, case.proxy) {
                    c.write_raw(&if v1 { net::proxy_v1(src, dst) } else { net::proxy_v2(src, dst) }).ok()?;
                }
                let _ = c.status_exchange("retry.example.org", Duration::from_secs(2));
                Some(c.received)
            })();
            if let Some(received) = r {
                if received > 0 {
                    verdict = Verdict::Fail { sig: "served-although-limiter-refuses".into(), msg: format!("address {ip} used its whole budget (limit {}, window 1000 s) and was served again 2.2 s later ({received} bytes){how}", case.limit) };
                }
            }
        }
    }
    if let Some(run) = bare {
        run.shutdown();
    }
    drop(child);
    info.class(match case.proxy {
        None => "proxy:off",
        Some((true, true)) => "proxy:v1+v2",
        Some((true, false)) => "proxy:v1",
        Some((false, true)) => "proxy:v2",
        Some((false, false)) => "proxy:none_allowed",
    });
    if refusals > 0 {
        info.class("has_refusal");
    }
    info.nontrivial = case.proxy.is_some() && sources_seen.len() >= 2 && peers_seen.len() >= 2 && refusals >= 1;
    verdict
}

impl Check for C15 {
    type Case = Case;
    fn id(&self) -> &'static str {
        "C15"
    }
    fn shards(&self, _tier: Tier) -> usize {
        8
    }
    fn strategy(&self, _tier: Tier) -> BoxedStrategy<Case> {
        let proxy = prop_oneof![1 => Just(None), 3 => Just(Some((true, true))), 1 => Just(Some((true, false))), 1 => Just(Some((false, true)))];
        proxy
            .prop_flat_map(|proxy| {
                let header = if proxy.is_some() {
                    prop_oneof![
                        5 => (0u8..7).prop_map(Header::V1),
                        5 => (0u8..7).prop_map(Header::V2),
                        2 => (0u8..7).prop_map(Header::V2Dgram),
                        1 => Just(Header::V2Local),
                        1 => Just(Header::V1Unknown),
                        1 => Just(Header::None),
                        2 => (0u8..5).prop_map(Header::Malformed),
                    ]
                    .boxed()
                } else {
                    Just(Header::None).boxed()
                };
                let conn = (0u8..3, header, prop::bool::weighted(0.2)).prop_map(|(peer, header, full_login)| Conn { peer, header, full_login });
                (Just(proxy), 1u8..=4, proptest::collection::vec(conn, 5..30), proptest::option::weighted(0.3, crate::layers::plan_strategy()))
            })
            .prop_map(|(proxy, limit, conns, configured)| {
                let burst = if conns.len() % 5 == 0 { 16 + (conns.len() as u8 % 16) } else { 0 };
                let retry_after_pause = configured.is_some() && conns.len() % 4 == 1;
                Case { proxy, limit, conns, configured, burst, retry_after_pause }
            })
            .boxed()
    }
    fn max_shrink_iters(&self) -> u32 {
        60
    }
    fn cases(&self, tier: Tier) -> u64 {
        tier.pick(800, 10_000)
    }
    fn run(&self, case: &Case) -> (Verdict, CaseInfo) {
        let mut info = CaseInfo::default();
        let v = decide(case, &mut info);
        (v, info)
    }
    fn rule(&self) -> String {
        "arrival histories of 5-29 sequential connections from peers 127.0.0.1/2/3; PROXY off / v1+v2 / v1 only / v2 only; per connection a valid v1 or v2 header announcing one of six IPv4/IPv6 sources (two share an IP), v2 LOCAL, v1 UNKNOWN, no header, or a malformed header; limiter limit 1-4 with a 1000 s window; every fifth connection performs a full login with routing (cookie issued); in 30 % of the cases the listener is a passage child process that takes PROXY versions and limiter from its layered configuration (file / environment, decoys in the lower layer). non-trivial = PROXY on, at least two distinct announced sources through at least two peers, and at least one refusal by the limiter; distinct = distinct case".into()
    }
    fn assumptions(&self) -> Vec<String> {
        vec![
            "connections are made one after the other, so the arrival order is defined; the limiter window (1000 s) never rolls during a run, so the reference limiter admits the first `limit` connections per effective IP".into(),
            "a refused connection may end with EOF or a reset; what matters is that not a single byte arrives".into(),
            "with PROXY off no headers are sent (they would be protocol garbage)".into(),
        ]
    }
}
