//! C01 — Only an authenticated identity is ever admitted.
//! C02 — Authentication is skipped only for a valid, unexpired, same-IP signed cookie.
//!
//! Both run generated login scenarios through the real `Connection::listen` in the simulator and
//! decide them on the trace. The reference cookie predicate lives in `cookie.rs`.

use crate::cookie::{self, BodyKind, CookieSpec, Identity, Mutation};
use crate::gens;
use crate::refcodec::{Pkt, opthexbytes};
use crate::runner::{CaseInfo, Check, Tier, Verdict};
use crate::sim::{self, AdapterScript, AuthV, ConnCfg, CookieAnswer, EncResp, LoginScript, ProfileSpec, SimOutcome, StrategyV, TransportScript};
use proptest::prelude::*;
use serde::{Deserialize, Serialize};
use serde_json::Value;
use std::net::SocketAddr;

#[derive(Clone, Debug, Serialize, Deserialize)]
pub struct AuthCase {
    pub cfg: ConnCfg,
    pub login: LoginScript,
    /// the authentication cookie the client presents when asked (None = no payload)
    pub cookie: Option<CookieSpec>,
    /// explicit payload bytes instead of a built cookie (e.g. empty payload)
    #[serde(with = "opthexbytes")]
    pub raw_cookie: Option<Vec<u8>>,
    /// answer the Encryption Request with the verify token harvested from an earlier connection
    pub stale_token: bool,
    pub adapters: AdapterScript,
    pub select_seed: u64,
}

pub struct Obs {
    pub out: SimOutcome,
    pub presented: Option<Vec<u8>>,
    pub accept0: Option<cookie::Parsed>,
    pub accept1: Option<cookie::Parsed>,
    pub claimed: (String, String),
    pub harvested_token: Option<Vec<u8>>,
}

pub fn execute(case: &AuthCase) -> Obs {
    let now0 = cookie::now_secs();
    let presented: Option<Vec<u8>> = match (&case.raw_cookie, &case.cookie) {
        (Some(raw), _) => Some(raw.clone()),
        (None, Some(spec)) => Some(cookie::build(spec, case.cfg.secret.as_deref(), now0)),
        (None, None) => None,
    };
    let mut login = case.login.clone();
    login.auth_cookie = match &presented {
        Some(p) => CookieAnswer::Payload(p.clone()),
        None => CookieAnswer::Absent,
    };
    let mut harvested_token = None;
    if case.stale_token {
        // an earlier connection of the same client: read its Encryption Request, then leave
        let l2 = login.clone();
        let harvested = std::sync::Arc::new(std::sync::Mutex::new(None));
        let h2 = std::sync::Arc::clone(&harvested);
        let _ = sim::run_sim(
            &case.cfg,
            &case.adapters,
            &TransportScript::default(),
            case.select_seed ^ 1,
            1000,
            crate::client_fn!(|c| {
                c.send(&Pkt::Handshake { protocol: l2.protocol, host: l2.host.clone(), port: l2.port, next: l2.intent });
                c.send(&Pkt::LoginStart { name: l2.name.clone(), uuid: l2.uuid });
                while let Some((_, p)) = c.next().await {
                    match p {
                        Pkt::LoginCookieRequest { key } => {
                            let payload = if key == cookie::SESSION_KEY {
                                None
                            } else {
                                match &l2.auth_cookie {
                                    CookieAnswer::Payload(p) => Some(p.clone()),
                                    CookieAnswer::Absent => None,
                                }
                            };
                            c.send(&Pkt::LoginCookieResponse { key, payload });
                        }
                        Pkt::EncryptionRequest { verify_token, .. } => {
                            *h2.lock().unwrap() = Some(verify_token);
                            return;
                        }
                        _ => {}
                    }
                }
            }),
        );
        harvested_token = harvested.lock().unwrap().clone();
        if let Some(t) = &harvested_token {
            login.enc_resp = EncResp::WrongToken(t.clone());
        }
    }
    let out = sim::run_sim(&case.cfg, &case.adapters, &TransportScript::default(), case.select_seed, 1000, crate::client_fn!(|c| sim::drive_login(c, &login).await));
    let now1 = cookie::now_secs();
    let client_ip = case.cfg.client_addr.parse::<SocketAddr>().unwrap().ip();
    // a client that stalls before presenting its cookie is judged at the time of presentation
    let now0 = if case.login.real_stall_before_auth_cookie_ms > 0 { now1 } else { now0 };
    let accept0 = cookie::accept(case.login.intent, case.cfg.secret.as_deref(), presented.as_deref(), client_ip, case.cfg.expiry, now0);
    let accept1 = cookie::accept(case.login.intent, case.cfg.secret.as_deref(), presented.as_deref(), client_ip, case.cfg.expiry, now1);
    Obs { out, presented, accept0, accept1, claimed: (case.login.name.clone(), case.login.uuid.to_string()), harvested_token }
}

fn verdict_identity(case: &AuthCase) -> Option<Identity> {
    match &case.adapters.auth {
        AuthV::Ok(p) => Some(Identity { name: p.name.clone(), uuid: p.id, properties: p.properties.clone() }),
        AuthV::Echo => Some(Identity { name: case.login.name.clone(), uuid: case.login.uuid, properties: vec![] }),
        AuthV::Err => None,
    }
}

fn enc_request(out: &SimOutcome) -> Option<(usize, bool, Vec<u8>)> {
    out.cb.iter().enumerate().find_map(|(i, (_, p))| match p {
        Pkt::EncryptionRequest { should_authenticate, public_key, .. } => Some((i, *should_authenticate, public_key.clone())),
        _ => None,
    })
}

fn login_success(out: &SimOutcome) -> Option<(String, uuid::Uuid)> {
    out.cb.iter().find_map(|(_, p)| match p {
        Pkt::LoginSuccess { name, uuid, .. } => Some((name.clone(), *uuid)),
        _ => None,
    })
}

fn stored_auth_cookies(out: &SimOutcome) -> Vec<Vec<u8>> {
    out.cb
        .iter()
        .filter_map(|(_, p)| match p {
            Pkt::CfgStoreCookie { key, payload } if key == cookie::AUTH_KEY => Some(payload.clone()),
            _ => None,
        })
        .collect()
}

fn user_args(out: &SimOutcome, kind: &str) -> Vec<(String, String)> {
    out.calls(kind).iter().map(|a| (a["name"].as_str().unwrap_or("").to_string(), a["uuid"].as_str().unwrap_or("").to_string())).collect()
}

fn honest_response(case: &AuthCase) -> bool {
    !case.stale_token && case.login.enc_resp == EncResp::Honest && case.login.shared_secret.len() == 16
}

// ---------------------------------------------------------------------------------------------
// C01
// ---------------------------------------------------------------------------------------------

pub struct C01;

fn c01_decide(case: &AuthCase, o: &Obs) -> Verdict {
    let out = &o.out;
    if let sim::ServerEnd::Panicked { msg } = &out.end {
        return Verdict::Fail { sig: "panic".into(), msg: format!("connection handler panicked: {msg}") };
    }
    if o.accept0.is_some() != o.accept1.is_some() {
        return Verdict::Inconclusive("cookie acceptance changed while the case ran (second boundary)".into());
    }
    let auth_calls = out.calls("authenticate");
    let auth_ok = out.events.iter().any(|e| matches!(e, sim::Event::Return { kind: "authenticate", ok: true, .. }));
    // A: the identity vouched for on this connection
    let vouched: Option<Identity> = if auth_ok {
        verdict_identity(case)
    } else if auth_calls.is_empty() {
        o.accept0.as_ref().map(|p| p.identity.clone())
    } else {
        None
    };
    let success = login_success(out);
    let transfers = out.cb.iter().filter(|(_, p)| matches!(p, Pkt::CfgTransfer { .. })).count();
    let stored = stored_auth_cookies(out);

    // (1) Login Success carries exactly A
    if let Some((name, uuid)) = &success {
        match &vouched {
            None => return Verdict::Fail { sig: "login-success-without-authenticated-identity".into(), msg: format!("Login Success for {name}/{uuid} although nobody vouched for an identity (authentication calls: {}, verdict ok: {auth_ok})", auth_calls.len()) },
            Some(a) if a.name != *name || a.uuid != *uuid => {
                let sig = if *name == case.login.name && *uuid == case.login.uuid { "login-success-carries-claimed-identity" } else { "login-success-identity-mismatch" };
                return Verdict::Fail { sig: sig.into(), msg: format!("Login Success carries {name}/{uuid}, the identity vouched for is {}/{}", a.name, a.uuid) };
            }
            _ => {}
        }
    }
    // (2) the player identity given to filtering and selection
    for kind in ["filter", "select"] {
        for (n, u) in user_args(out, kind) {
            match &vouched {
                None => return Verdict::Fail { sig: format!("{kind}-without-authenticated-identity"), msg: format!("{kind} was consulted for {n}/{u} although no identity was vouched for") },
                Some(a) if a.name != n || a.uuid.to_string() != u => {
                    let sig = if n == o.claimed.0 && u == o.claimed.1 { format!("{kind}-sees-claimed-identity") } else { format!("{kind}-identity-mismatch") };
                    return Verdict::Fail { sig, msg: format!("{kind} was given {n}/{u}, the authenticated identity is {}/{}", a.name, a.uuid) };
                }
                _ => {}
            }
        }
    }
    // (3) a stored authentication cookie names A
    for payload in &stored {
        let Some(a) = &vouched else {
            return Verdict::Fail { sig: "auth-cookie-without-authenticated-identity".into(), msg: "an authentication cookie was issued although no identity was vouched for".into() };
        };
        let Some(secret) = case.cfg.secret.as_deref() else {
            return Verdict::Fail { sig: "auth-cookie-without-secret".into(), msg: "an authentication cookie was issued without a configured secret".into() };
        };
        if !cookie::tag_ok(secret, payload) {
            return Verdict::Fail { sig: "auth-cookie-bad-tag".into(), msg: "issued authentication cookie does not verify under the configured secret (reference HMAC)".into() };
        }
        match cookie::parse_body(&payload[32..]) {
            None => return Verdict::Fail { sig: "auth-cookie-unparseable".into(), msg: "issued authentication cookie body does not parse".into() },
            Some(p) => {
                if p.identity != *a {
                    return Verdict::Fail { sig: "auth-cookie-identity-mismatch".into(), msg: format!("issued cookie names {:?}, authenticated identity is {:?}", p.identity, a) };
                }
            }
        }
    }
    // (4) Transfer implies A
    if transfers > 0 && vouched.is_none() {
        return Verdict::Fail { sig: "transfer-without-authenticated-identity".into(), msg: "a Transfer was sent although no identity was vouched for".into() };
    }
    // (5) what the authentication service is asked
    if let Some(args) = auth_calls.first() {
        if args["name"].as_str() != Some(case.login.name.as_str()) || args["uuid"].as_str() != Some(o.claimed.1.as_str()) {
            return Verdict::Fail { sig: "auth-asked-about-other-identity".into(), msg: format!("authentication service asked about {}/{}, the client claimed {}/{}", args["name"], args["uuid"], o.claimed.0, o.claimed.1) };
        }
        let sent_secret = crate::refcodec::to_hex(&case.login.shared_secret);
        let decryptable = !matches!(case.login.enc_resp, EncResp::ForeignKey | EncResp::Garbage(..));
        if decryptable && args["shared_secret"].as_str() != Some(sent_secret.as_str()) {
            return Verdict::Fail { sig: "auth-asked-with-other-secret".into(), msg: format!("authentication service asked with secret {}, the client encrypted {}", args["shared_secret"], sent_secret) };
        }
        if let Some((_, _, key)) = enc_request(out) {
            if args["public_key"].as_str() != Some(crate::refcodec::to_hex(&key).as_str()) {
                return Verdict::Fail { sig: "auth-asked-with-other-key".into(), msg: "authentication service asked with a public key other than the one in the Encryption Request".into() };
            }
        }
        if auth_calls.len() > 1 {
            return Verdict::Fail { sig: "auth-asked-twice".into(), msg: format!("{} authentication calls on one connection", auth_calls.len()) };
        }
    }
    // the cipher is keyed with the vouched secret: everything after the switch decodes with it
    if success.is_some() && out.stream_broken.is_some() {
        return Verdict::Fail { sig: "cipher-not-keyed-with-shared-secret".into(), msg: format!("clientbound stream after the switch does not decrypt with the shared secret: {:?}", out.stream_broken) };
    }
    // (6) failed authentication / dishonest response: nothing is granted, the connection ends
    let auth_failed = !auth_calls.is_empty() && !auth_ok;
    let dishonest = enc_request(out).is_some() && !honest_response(case);
    if auth_failed || dishonest {
        let why = if auth_failed { "authentication service failed" } else { "the verify token was not returned encrypted to the server key with a 16-byte secret" };
        if success.is_some() {
            return Verdict::Fail { sig: if auth_failed { "login-success-after-auth-failure" } else { "login-success-after-bad-encryption-response" }.into(), msg: format!("Login Success sent although {why}") };
        }
        if !stored.is_empty() || transfers > 0 {
            return Verdict::Fail { sig: "granted-after-failure".into(), msg: format!("cookie/transfer sent although {why}") };
        }
        let eidx = enc_request(out).map(|(i, _, _)| i).unwrap_or(0);
        if out.cb.len() > eidx + 1 {
            return Verdict::Fail { sig: "packets-after-failure".into(), msg: format!("{} packets sent after the Encryption Request although {why}: {:?}", out.cb.len() - eidx - 1, out.cb_kinds()) };
        }
        // ... not even bytes the client cannot read (e.g. encrypted under a key derived from a secret of the wrong size)
        if out.stream_broken.is_some() || out.cb_leftover > 0 {
            return Verdict::Fail { sig: "bytes-after-failure".into(), msg: format!("{} undecodable bytes ({:?}) sent after the Encryption Request although {why}", out.cb_leftover, out.stream_broken) };
        }
        if out.returned_ok() || matches!(out.end, sim::ServerEnd::Hung) {
            return Verdict::Fail { sig: "connection-not-ended-after-failure".into(), msg: format!("listen ended with {} although {why}", out.end_label()) };
        }
    }
    Verdict::Pass
}

fn c01_info(case: &AuthCase, o: &Obs) -> CaseInfo {
    let mut info = CaseInfo::default();
    let success = login_success(&o.out).is_some();
    let differs = verdict_identity(case).is_some_and(|v| v.name != case.login.name || v.uuid != case.login.uuid);
    let cls = match &case.login.enc_resp {
        _ if case.stale_token => "resp:stale_token",
        EncResp::Honest if case.login.shared_secret.len() != 16 => "resp:secret_wrong_len",
        EncResp::Honest => "resp:honest",
        EncResp::WrongToken(_) => "resp:wrong_token",
        EncResp::TokenPrefix(_) => "resp:token_prefix",
        EncResp::TokenFlip(_) => "resp:token_bitflip",
        EncResp::ForeignKey => "resp:foreign_key",
        EncResp::Garbage(..) => "resp:garbage",
        EncResp::PlainToken => "resp:plain_token",
    };
    info.class(cls);
    info.class(match &case.adapters.auth {
        AuthV::Err => "verdict:err",
        _ if differs => "verdict:identity_differs_from_claim",
        _ => "verdict:same_as_claim",
    });
    info.class(if case.login.intent == 3 { "intent:transfer" } else { "intent:login" });
    if o.accept0.is_some() {
        info.class("cookie:accepted_by_reference");
    }
    if success {
        info.class("reached:login_success");
    }
    if o.out.cb.iter().any(|(_, p)| matches!(p, Pkt::CfgTransfer { .. })) {
        info.class("reached:transfer");
    }
    info.nontrivial = (differs && success) || !honest_response(case) || matches!(case.adapters.auth, AuthV::Err);
    info
}

fn profile_strategy() -> BoxedStrategy<ProfileSpec> {
    gens::identity().prop_map(|i| ProfileSpec { name: i.name, id: i.uuid, properties: i.properties }).boxed()
}

fn enc_resp_strategy() -> BoxedStrategy<(EncResp, Vec<u8>, bool)> {
    let honest16 = gens::shared_secret16();
    prop_oneof![
        6 => honest16.clone().prop_map(|s| (EncResp::Honest, s, false)),
        1 => (proptest::collection::vec(any::<u8>(), 32..=32), honest16.clone()).prop_map(|(t, s)| (EncResp::WrongToken(t), s, false)),
        1 => (proptest::collection::vec(any::<u8>(), 0..40), honest16.clone()).prop_map(|(t, s)| (EncResp::WrongToken(t), s, false)),
        1 => (0u8..32, honest16.clone()).prop_map(|(n, s)| (EncResp::TokenPrefix(n), s, false)),
        1 => (0u16..256, honest16.clone()).prop_map(|(n, s)| (EncResp::TokenFlip(n), s, false)),
        1 => honest16.clone().prop_map(|s| (EncResp::ForeignKey, s, false)),
        1 => (proptest::sample::select(vec![0usize, 1, 64, 127, 128, 129, 200]), proptest::sample::select(vec![0usize, 1, 64, 128, 200]), any::<u8>())
            .prop_map(|(a, b, fill)| (EncResp::Garbage(vec![fill; a], vec![fill.wrapping_add(1); b]), (0u8..16).collect(), false)),
        1 => honest16.clone().prop_map(|s| (EncResp::PlainToken, s, false)),
        1 => honest16.clone().prop_map(|s| (EncResp::Honest, s, true)),
        // honest token, secret of the wrong size
        2 => proptest::sample::select(vec![0usize, 1, 8, 15, 17, 24, 32]).prop_flat_map(|n| proptest::collection::vec(any::<u8>(), n..=n)).prop_map(|s| (EncResp::Honest, s, false)),
    ]
    .boxed()
}

fn cookie_light(client_addr: String, identity: Identity) -> BoxedStrategy<Option<CookieSpec>> {
    let other_ip = "198.51.100.9:4000".to_string();
    prop_oneof![
        3 => Just(None),
        3 => Just(Some(CookieSpec { age: 5, addr: client_addr.clone(), identity: identity.clone(), target: Some("t".into()), other_secret: None, mutation: Mutation::None })),
        1 => Just(Some(CookieSpec { age: 5, addr: client_addr.clone(), identity: identity.clone(), target: None, other_secret: Some(b"wrong".to_vec()), mutation: Mutation::None })),
        1 => Just(Some(CookieSpec { age: 1_000_000, addr: client_addr.clone(), identity: identity.clone(), target: None, other_secret: None, mutation: Mutation::None })),
        1 => Just(Some(CookieSpec { age: 5, addr: other_ip, identity: identity.clone(), target: None, other_secret: None, mutation: Mutation::None })),
        1 => any::<u16>().prop_map(move |b| Some(CookieSpec { age: 5, addr: client_addr.clone(), identity: identity.clone(), target: None, other_secret: None, mutation: Mutation::FlipBit(b) })),
    ]
    .boxed()
}

impl Check for C01 {
    type Case = AuthCase;
    fn id(&self) -> &'static str {
        "C01"
    }
    fn strategy(&self, _tier: Tier) -> BoxedStrategy<AuthCase> {
        (gens::client_addr(), gens::identity(), gens::name(), gens::uuid())
            .prop_flat_map(|(client_addr, cookie_identity, name, uuid)| {
                let claimed = ProfileSpec { name: name.clone(), id: uuid, properties: vec![] };
                let verdict = prop_oneof![
                    4 => profile_strategy().prop_map(AuthV::Ok),
                    1 => gens::props().prop_map(move |properties| AuthV::Ok(ProfileSpec { properties, ..claimed.clone() })),
                    1 => Just(AuthV::Echo),
                    2 => Just(AuthV::Err),
                ];
                (
                    Just(client_addr.clone()),
                    Just((name, uuid)),
                    cookie_light(client_addr, cookie_identity),
                    verdict,
                    enc_resp_strategy(),
                    prop_oneof![Just(2i32), Just(3i32)],
                    gens::secret_opt(),
                    gens::targets(4),
                    any::<u16>(),
                    any::<u64>(),
                )
            })
            .prop_map(|(client_addr, (name, uuid), cookie, auth, (enc_resp, shared_secret, stale_token), intent, secret, targets, pick, select_seed)| {
                let adapters = AdapterScript { auth, discovery: Some(targets), strategy: StrategyV::Pick(pick), ..Default::default() };
                AuthCase {
                    cfg: ConnCfg { secret, client_addr, ..Default::default() },
                    login: LoginScript { intent, name, uuid, enc_resp, shared_secret, ..Default::default() },
                    cookie,
                    raw_cookie: None,
                    stale_token,
                    adapters,
                    select_seed,
                }
            })
            .boxed()
    }
    fn cases(&self, tier: Tier) -> u64 {
        tier.pick(6_000, 200_000)
    }
    fn run(&self, case: &AuthCase) -> (Verdict, CaseInfo) {
        let o = execute(case);
        let info = c01_info(case, &o);
        (c01_decide(case, &o), info)
    }
    fn rule(&self) -> String {
        "generated (intent, claimed identity, authentication verdict, encryption-response variant, cookie class, secret, targets); non-trivial = the verdict's identity differs from the claim and Login Success was reached, OR a dishonest encryption response (wrong/stale/flipped/truncated token, foreign key, garbage, wrong secret size), OR the verdict is an error; distinct = distinct case".into()
    }
    fn assumptions(&self) -> Vec<String> {
        vec![
            "adapters answer instantly; the authentication verdict is scripted".into(),
            "a secret of the wrong size may reach the authentication service before the cipher is refused: only 'nothing is granted' is asserted there".into(),
            "cookie acceptance is decided by the reference predicate of C02 at the wall-clock second before and after the case; a change in between is inconclusive".into(),
        ]
    }
    fn extra(&self, _tier: Tier, _seed: u64, stats: &crate::runner::Stats) -> Vec<(String, String, Value)> {
        // the configured authentication service itself: an answer of the session server that names nobody
        // (no id / no name) is not a verdict (real MojangAdapter against the loopback mock, hook H1)
        let mut out = Vec::new();
        let mut n = 0u64;
        for k in 0u8..6 {
            let body = crate::checks::c12::nobody_body(k);
            if let Some(accepted) = crate::checks::c12::verdict_for_body(body.clone()) {
                n += 1;
                if accepted {
                    out.push(("authentication-service-answer-naming-nobody-accepted".to_string(), format!("the session service answered {:?}; the Mojang adapter returned Ok(profile)", String::from_utf8_lossy(&body)), serde_json::json!({"session_server_body": String::from_utf8_lossy(&body)})));
                    break;
                }
            }
        }
        stats.set_extra("session_service_answers_naming_nobody_checked", serde_json::json!(n));
        out
    }
    fn sample(&self, case: &AuthCase) -> Value {
        serde_json::json!({"intent": case.login.intent, "claimed": [case.login.name, case.login.uuid], "verdict": case.adapters.auth, "enc_resp": case.login.enc_resp, "secret_len": case.login.shared_secret.len(), "stale_token": case.stale_token, "cookie": case.cookie.as_ref().map(|c| &c.mutation), "auth_secret_configured": case.cfg.secret.is_some()})
    }
}

// ---------------------------------------------------------------------------------------------
// C02
// ---------------------------------------------------------------------------------------------

pub struct C02;

fn cookie_class(case: &AuthCase, o: &Obs) -> String {
    if let Some(raw) = &case.raw_cookie {
        return if raw.is_empty() { "raw_empty".into() } else { "raw_bytes".into() };
    }
    let Some(spec) = &case.cookie else { return "absent".into() };
    let client_ip = case.cfg.client_addr.parse::<SocketAddr>().unwrap().ip();
    let spec_ip = spec.addr.parse::<SocketAddr>().map(|a| a.ip()).ok();
    let m = match &spec.mutation {
        Mutation::None => "intact".to_string(),
        Mutation::Truncate(_) | Mutation::TruncateTo(_) => format!("truncated:{}", o.presented.as_ref().map(|p| if p.len() < 32 { "below_tag" } else if p.len() == 32 { "tag_only" } else { "into_body" }).unwrap_or("?")),
        Mutation::FlipBit(_) => "bitflip".into(),
        Mutation::FlipTagBit(_) => "bitflip_tag".into(),
        Mutation::Body(k) => format!("valid_tag_over:{k:?}").split('(').next().unwrap().to_string(),
        Mutation::HalfTag => "half_tag".into(),
        Mutation::TagOverTagAndBody => "tag_over_tag_and_body".into(),
        Mutation::UnkeyedTag => "unkeyed_tag".into(),
    };
    let age = if spec.age < 0 {
        "future"
    } else if (spec.age as u64) + 1 == case.cfg.expiry {
        "age=expiry-1"
    } else if spec.age as u64 == case.cfg.expiry {
        "age=expiry"
    } else if spec.age as u64 == case.cfg.expiry.saturating_add(1) {
        "age=expiry+1"
    } else if (spec.age as u64) < case.cfg.expiry {
        "fresh"
    } else {
        "expired"
    };
    format!("{m}|{age}|{}|{}", if spec_ip == Some(client_ip) { "same_ip" } else { "other_ip" }, if spec.other_secret.is_some() { "other_secret" } else { "own_secret" })
}

fn c02_decide(case: &AuthCase, o: &Obs) -> Verdict {
    let out = &o.out;
    if o.accept0.is_some() != o.accept1.is_some() {
        return Verdict::Inconclusive("cookie acceptance changed while the case ran (second boundary)".into());
    }
    if let sim::ServerEnd::Panicked { msg } = &out.end {
        // a panic while judging the cookie is neither "skipped" nor "told to authenticate"
        return Verdict::Fail { sig: if msg.contains("overflow") { "panic-overflow".into() } else { "panic".into() }, msg: format!("connection handler panicked: {msg}") };
    }
    let er = enc_request(out);
    let auth_calls = out.calls("authenticate");
    let auth_ok = out.events.iter().any(|e| matches!(e, sim::Event::Return { kind: "authenticate", ok: true, .. }));
    let success = login_success(out);
    match &o.accept0 {
        Some(parsed) => {
            // acceptable cookie: skipping is allowed; if skipped, the identity is exactly the cookie's
            if let Some((_, false, _)) = er {
                if !auth_calls.is_empty() {
                    return Verdict::Fail { sig: "authenticate-called-although-skipped".into(), msg: "Encryption Request said should_authenticate=false but the authentication service was called".into() };
                }
                if let Some((n, u)) = &success {
                    if *n != parsed.identity.name || *u != parsed.identity.uuid {
                        return Verdict::Fail { sig: "cookie-identity-not-used".into(), msg: format!("Login Success carries {n}/{u}, the accepted cookie names {}/{}", parsed.identity.name, parsed.identity.uuid) };
                    }
                }
                for kind in ["filter", "select"] {
                    for (n, u) in user_args(out, kind) {
                        if n != parsed.identity.name || u != parsed.identity.uuid.to_string() {
                            return Verdict::Fail { sig: format!("cookie-identity-not-used-in-{kind}"), msg: format!("{kind} was given {n}/{u}, the accepted cookie names {}/{}", parsed.identity.name, parsed.identity.uuid) };
                        }
                    }
                }
            }
            Verdict::Pass
        }
        None => {
            // every other case: the client is told to authenticate, and the verdict is required
            let reason = cookie_class(case, o);
            match er {
                None => Verdict::Fail {
                    sig: if o.presented.as_ref().is_some_and(|p| case.cfg.secret.as_deref().is_some_and(|s| cookie::tag_ok(s, p))) { "unacceptable-cookie-aborts-instead-of-authenticating:signed-but-unparseable".into() } else { "unacceptable-cookie-aborts-instead-of-authenticating".into() },
                    msg: format!("cookie class {reason}: no Encryption Request was sent, listen ended with {}; packets: {:?}", out.end_label(), out.cb_kinds()),
                },
                Some((_, false, _)) => Verdict::Fail {
                    sig: format!("authentication-skipped:{}", reason.split('|').next().unwrap_or("")),
                    msg: format!("should_authenticate=false although the reference predicate rejects the cookie (class {reason}; intent {}, secret configured {})", case.login.intent, case.cfg.secret.is_some()),
                },
                Some((_, true, _)) => {
                    if let Some((n, u)) = &success {
                        if !auth_ok {
                            return Verdict::Fail { sig: "login-success-without-verdict".into(), msg: format!("Login Success for {n}/{u} without an Ok verdict of the authentication service (class {reason})") };
                        }
                        let v = verdict_identity(case).unwrap();
                        if v.name != *n || v.uuid != *u {
                            return Verdict::Fail { sig: "verdict-identity-not-used".into(), msg: format!("Login Success carries {n}/{u}, the verdict was {}/{} (class {reason})", v.name, v.uuid) };
                        }
                    }
                    Verdict::Pass
                }
            }
        }
    }
}

fn c02_cookie_strategy(client_addr: String, expiry: u64) -> BoxedStrategy<(Option<CookieSpec>, Option<Vec<u8>>)> {
    let client_addr2 = client_addr.clone();
    let client_ip = client_addr.parse::<SocketAddr>().unwrap().ip();
    let same_ip_other_port = SocketAddr::new(client_ip, 1).to_string();
    let addr = prop_oneof![
        5 => Just(client_addr.clone()),
        2 => Just(same_ip_other_port),
        2 => gens::client_addr(),
        1 => Just(if client_ip.is_ipv4() { "[2001:db8::77]:25565".to_string() } else { "192.0.2.55:25565".to_string() }),
        // a different address that merely embeds the client's: the deprecated IPv4-compatible form ::a.b.c.d of an
        // IPv4 client (not the IPv4-mapped ::ffff:a.b.c.d), or the IPv4 address made of the last four bytes of an
        // IPv6 client
        1 => Just(match client_ip {
            std::net::IpAddr::V4(v4) => {
                let o = v4.octets();
                SocketAddr::new(std::net::IpAddr::V6(std::net::Ipv6Addr::new(0, 0, 0, 0, 0, 0, u16::from_be_bytes([o[0], o[1]]), u16::from_be_bytes([o[2], o[3]]))), 25565).to_string()
            }
            std::net::IpAddr::V6(v6) => {
                let o = v6.octets();
                SocketAddr::new(std::net::IpAddr::V4(std::net::Ipv4Addr::new(o[12], o[13], o[14], o[15])), 25565).to_string()
            }
        }),
    ];
    let e = expiry as i64;
    let ages: Vec<i64> = vec![0, 1, e.saturating_sub(1).max(0), e.max(0), e.saturating_add(1), e.saturating_mul(2).saturating_add(10), -5, -100_000, 30];
    let ages: Vec<i64> = ages.into_iter().filter(|a| *a < (1i64 << 40) && *a > -(1i64 << 40)).collect();
    let age = prop_oneof![3 => Just(5i64), 4 => proptest::sample::select(ages), 1 => 0i64..100_000];
    let mutation = prop_oneof![
        6 => Just(Mutation::None),
        3 => any::<u16>().prop_map(Mutation::Truncate),
        3 => (0u8..70).prop_map(Mutation::TruncateTo),
        2 => proptest::sample::select(vec![0u8, 1, 30, 31, 32, 33, 34]).prop_map(Mutation::TruncateTo),
        4 => any::<u16>().prop_map(Mutation::FlipBit),
        3 => any::<u8>().prop_map(Mutation::FlipTagBit),
        1 => Just(Mutation::HalfTag),
        1 => Just(Mutation::TagOverTagAndBody),
        1 => Just(Mutation::UnkeyedTag),
        1 => Just(Mutation::Body(BodyKind::Empty)),
        1 => Just(Mutation::Body(BodyKind::NotJson)),
        1 => Just(Mutation::Body(BodyKind::JsonArray)),
        1 => Just(Mutation::Body(BodyKind::JsonNull)),
        1 => Just(Mutation::Body(BodyKind::TrailingGarbage)),
        1 => Just(Mutation::Body(BodyKind::InvalidUtf8)),
        2 => (0u8..5).prop_map(|i| Mutation::Body(BodyKind::MissingField(i))),
        2 => (0u8..5).prop_map(|i| Mutation::Body(BodyKind::WrongType(i))),
    ];
    let other_secret = prop_oneof![10 => Just(None), 2 => proptest::collection::vec(any::<u8>(), 0..40).prop_map(Some), 1 => Just(Some(Vec::new()))];
    let spec = (age, addr, gens::identity(), proptest::option::of("[a-z0-9-]{0,12}"), other_secret, mutation)
        .prop_map(move |(age, addr, identity, target, other_secret, mutation)| {
            // an address that differs only by IPv4-mapping from the client's is neither "same" nor "other"
            let addr = if gens::same_canonical_ip(&addr, &client_addr2) { "192.0.2.200:1".to_string() } else { addr };
            CookieSpec { age, addr, identity, target, other_secret, mutation }
        });
    prop_oneof![
        1 => Just((None, None)),
        1 => Just((None, Some(Vec::new()))),
        1 => proptest::collection::vec(any::<u8>(), 0..80).prop_map(|v| (None, Some(v))),
        14 => spec.prop_map(|s| (Some(s), None)),
    ]
    .boxed()
}

impl Check for C02 {
    type Case = AuthCase;
    fn id(&self) -> &'static str {
        "C02"
    }
    fn strategy(&self, _tier: Tier) -> BoxedStrategy<AuthCase> {
        let expiry = prop_oneof![
            3 => proptest::sample::select(vec![0u64, 1, 60, 21600, 1 << 32]),
            1 => 0u64..100_000,
        ];
        (gens::client_addr(), expiry)
            .prop_flat_map(|(client_addr, expiry)| {
                (
                    Just(client_addr.clone()),
                    Just(expiry),
                    c02_cookie_strategy(client_addr, expiry),
                    prop_oneof![1 => Just(2i32), 4 => Just(3i32)],
                    prop_oneof![1 => Just(None), 1 => Just(Some(Vec::new())), 6 => proptest::collection::vec(any::<u8>(), 1..=64).prop_map(Some), 1 => proptest::collection::vec(any::<u8>(), 65..=130).prop_map(Some)],
                    gens::name(),
                    gens::uuid(),
                    prop_oneof![3 => profile_strategy().prop_map(AuthV::Ok), 1 => Just(AuthV::Echo), 1 => Just(AuthV::Err)],
                    gens::targets(2),
                    any::<u64>(),
                )
            })
            .prop_map(|(client_addr, expiry, (cookie, raw_cookie), intent, secret, name, uuid, auth, targets, select_seed)| {
                // rarely (it costs real time): a cookie with one second of validity left when the client connects,
                // presented 2.2 s later
                if select_seed % 200 == 0 && expiry >= 1 && expiry < (1 << 40) {
                    let cookie = CookieSpec {
                        age: expiry as i64 - 1,
                        addr: client_addr.clone(),
                        identity: Identity { name: "Staller".into(), uuid: uuid::Uuid::from_u128(0x57a11), properties: vec![] },
                        target: None,
                        other_secret: None,
                        mutation: Mutation::None,
                    };
                    return AuthCase {
                        cfg: ConnCfg { secret: Some(secret.unwrap_or_else(|| b"stall".to_vec())), expiry, client_addr, ..Default::default() },
                        login: LoginScript { intent: 3, name, uuid, real_stall_before_auth_cookie_ms: 2200, ..Default::default() },
                        cookie: Some(cookie),
                        raw_cookie: None,
                        stale_token: false,
                        adapters: AdapterScript { auth, discovery: Some(targets), ..Default::default() },
                        select_seed,
                    };
                }
                // a secret longer than the HMAC block and a cookie signed with a related key
                let mut cookie = cookie;
                if let (Some(sec), Some(spec)) = (&secret, cookie.as_mut()) {
                    if sec.len() > 64 && select_seed % 3 == 0 && spec.other_secret.is_none() {
                        // either its first 64 bytes alone (what a truncating implementation would key with), or the
                        // same first 64 bytes with another tail
                        let mut twin = sec.clone();
                        if select_seed % 2 == 0 {
                            twin.truncate(64);
                        } else {
                            for b in twin[64..].iter_mut() {
                                *b = !*b;
                            }
                        }
                        spec.other_secret = Some(twin);
                    }
                }
                AuthCase {
                    cfg: ConnCfg { secret, expiry, client_addr, ..Default::default() },
                    login: LoginScript { intent, name, uuid, ..Default::default() },
                    cookie,
                    raw_cookie,
                    stale_token: false,
                    adapters: AdapterScript { auth, discovery: Some(targets), ..Default::default() },
                    select_seed,
                }
            })
            .boxed()
    }
    fn max_shrink_iters(&self) -> u32 {
        // a few cases cost seconds of real time (stalled presentation)
        96
    }
    fn cases(&self, tier: Tier) -> u64 {
        tier.pick(8_000, 300_000)
    }
    fn run(&self, case: &AuthCase) -> (Verdict, CaseInfo) {
        let o = execute(case);
        let class = cookie_class(case, &o);
        let mut info = CaseInfo::default();
        let fresh_valid = class == "intact|fresh|same_ip|own_secret" && case.login.intent == 3 && case.cfg.secret.is_some();
        info.nontrivial = !fresh_valid;
        info.class(format!("cookie:{}", class.split('|').next().unwrap_or("")));
        for part in class.split('|').skip(1) {
            info.class(part.to_string());
        }
        info.class(if o.accept0.is_some() { "reference:accept" } else { "reference:reject" });
        info.class(if case.login.intent == 3 { "intent:transfer" } else { "intent:login" });
        info.class(if case.cfg.secret.is_some() { "secret:configured" } else { "secret:none" });
        if enc_request(&o.out).is_some_and(|(_, sa, _)| !sa) {
            info.class("observed:authentication_skipped");
        }
        if case.login.real_stall_before_auth_cookie_ms > 0 {
            info.class("cookie_expires_while_the_client_stalls");
        }
        (c02_decide(case, &o), info)
    }
    fn rule(&self) -> String {
        "generated intent x secret x expiry x client address x cookie class (absent, empty, raw bytes, every truncation class, bit flips in tag and body, half tag, tag over tag||body, unkeyed tag, foreign secret, other IP / same IP other port, ages 0/1/expiry-1/expiry/expiry+1/far/future, valid tag over non-JSON / array / null / missing or mistyped field / trailing garbage / invalid UTF-8); non-trivial = anything but a fresh intact same-IP cookie on a Transfer connection with a secret; distinct = distinct case".into()
    }
    fn assumptions(&self) -> Vec<String> {
        vec![
            "the code reads SystemTime::now(); ages are relative to the second read before the case; if the reference predicate gives different answers for the seconds before and after the case, the case is inconclusive".into(),
            "an IPv4 client address is never paired with its IPv4-mapped IPv6 form".into(),
            "unparseable bodies are unambiguously unparseable; parseable ones come from the reference serialiser".into(),
        ]
    }
    fn sample(&self, case: &AuthCase) -> Value {
        serde_json::json!({"intent": case.login.intent, "secret_configured": case.cfg.secret.is_some(), "expiry": case.cfg.expiry, "client_addr": case.cfg.client_addr, "cookie": case.cookie.as_ref().map(|c| serde_json::json!({"age": c.age, "addr": c.addr, "mutation": c.mutation, "other_secret": c.other_secret.is_some()})), "raw_cookie_len": case.raw_cookie.as_ref().map(|r| r.len())})
    }
}
