//! C06, the status service as it is deployed: a passage child process whose status adapter is the HTTP
//! adapter (`adapters.status.http`, refreshed every second), in front of a scripted HTTP endpoint that
//! answers successive refreshes with a status, `null`, an error, or only after a delay. Clients ping
//! between the refreshes. Oracle: the Status Response carries the answer of the latest refresh that has
//! completed (the JSON value `null` when that answer was `null`), and a ping is answered at once even while a
//! refresh is still in flight.

use crate::net::{self, NetClient};
use crate::refcodec::{Phase, Pkt};
use serde::{Deserialize, Serialize};
use std::io::{Read, Write};
use std::sync::{Arc, Mutex};
use std::time::{Duration, Instant};

#[derive(Clone, Debug, Serialize, Deserialize, PartialEq)]
pub enum Up {
    /// 200 with a status whose version name is "answer-<k>"
    Status(u8),
    /// 200 with the body `null`: the service has no status at the moment
    Null,
    /// 500
    Error,
    /// like Status(k), but the answer takes this many milliseconds
    Slow(u8, u16),
}

#[derive(Clone, Debug, Serialize, Deserialize, PartialEq)]
pub struct Scenario {
    pub answers: Vec<Up>,
    pub plan_bits: u64,
}

#[derive(Clone, Debug)]
struct LogEntry {
    idx: usize,
    started: Instant,
    done: Option<Instant>,
}

fn body_of(up: &Up) -> (u16, String) {
    match up {
        Up::Status(k) | Up::Slow(k, _) => (200, format!("{{\"version\":{{\"name\":\"answer-{k}\",\"protocol\":770}},\"players\":null,\"description\":null,\"favicon\":null,\"enforcesSecureChat\":null}}")),
        Up::Null => (200, "null".to_string()),
        Up::Error => (500, "{\"error\":\"unavailable\"}".to_string()),
    }
}

/// the scripted endpoint; answers beyond the script repeat the last one
fn start_endpoint(answers: Vec<Up>, log: Arc<Mutex<Vec<LogEntry>>>) -> u16 {
    let listener = std::net::TcpListener::bind("127.0.0.1:0").expect("bind");
    let port = listener.local_addr().unwrap().port();
    std::thread::spawn(move || {
        for stream in listener.incoming() {
            let Ok(mut stream) = stream else { break };
            let answers = answers.clone();
            let log = Arc::clone(&log);
            std::thread::spawn(move || {
                let _ = stream.set_nodelay(true);
                let mut buf: Vec<u8> = Vec::new();
                loop {
                    // one request head
                    let end = loop {
                        if let Some(p) = buf.windows(4).position(|w| w == b"\r\n\r\n") {
                            break Some(p + 4);
                        }
                        let mut tmp = [0u8; 2048];
                        match stream.read(&mut tmp) {
                            Ok(0) | Err(_) => break None,
                            Ok(n) => buf.extend_from_slice(&tmp[..n]),
                        }
                    };
                    let Some(end) = end else { return };
                    buf.drain(..end);
                    let (idx, up) = {
                        let mut l = log.lock().unwrap();
                        let idx = l.len();
                        l.push(LogEntry { idx, started: Instant::now(), done: None });
                        (idx, answers.get(idx).or(answers.last()).cloned().unwrap_or(Up::Null))
                    };
                    if let Up::Slow(_, ms) = &up {
                        std::thread::sleep(Duration::from_millis(u64::from(*ms)));
                    }
                    let (status, body) = body_of(&up);
                    let out = format!("HTTP/1.1 {status} X\r\ncontent-type: application/json\r\ncontent-length: {}\r\n\r\n{body}", body.len());
                    let ok = stream.write_all(out.as_bytes()).is_ok();
                    log.lock().unwrap()[idx].done = Some(Instant::now());
                    if !ok {
                        return;
                    }
                }
            });
        }
    });
    port
}

/// Ok(number of pings judged) or Err((signature, message))
pub fn run(sc: &Scenario) -> Result<u32, (String, String)> {
    let inc = |e: String| ("inconclusive".to_string(), e);
    let log: Arc<Mutex<Vec<LogEntry>>> = Arc::new(Mutex::new(Vec::new()));
    let endpoint = start_endpoint(sc.answers.clone(), Arc::clone(&log));
    let port = net::free_port();
    let cfg = serde_json::json!({
        "address": format!("127.0.0.1:{port}"),
        "timeout": 5,
        "adapters": {"status": {"http": {"address": format!("http://127.0.0.1:{endpoint}/status"), "cache_duration": 1}}}
    });
    let plan = crate::layers::LayerPlan::from_bits(sc.plan_bits);
    let inst = crate::layers::start(&cfg, &plan).map_err(inc)?;
    // the first refresh
    let t_wait = Instant::now();
    let first = loop {
        if let Some(e) = log.lock().unwrap().first().cloned() {
            break e.started;
        }
        if t_wait.elapsed() > Duration::from_secs(3) {
            return Err(inc("the instance never asked the status endpoint".into()));
        }
        std::thread::sleep(Duration::from_millis(5));
    };
    let mut judged = 0u32;
    let pings = sc.answers.len() as u64 + 1;
    for k in 0..pings {
        let at = first + Duration::from_millis(500 + 1000 * k);
        while Instant::now() < at {
            std::thread::sleep(Duration::from_millis(5));
        }
        let ping_t = Instant::now();
        let mut c = NetClient::connect(inst.port).map_err(|e| inc(e.to_string()))?;
        c.phase = Phase::Status;
        let _ = c.send(&Pkt::Handshake { protocol: 770, host: "status.example.org".into(), port: 25565, next: 1 });
        let _ = c.send(&Pkt::StatusRequest);
        let got = c.recv(Duration::from_millis(800));
        let answered_after = ping_t.elapsed();
        // what had the endpoint said by then?
        let entries = log.lock().unwrap().clone();
        let margin = Duration::from_millis(200);
        let near = entries.iter().any(|e| {
            let close = |t: Instant| if t > ping_t { t - ping_t < margin } else { ping_t - t < margin };
            close(e.started) || e.done.is_some_and(close)
        });
        if near {
            continue;
        }
        let in_flight = entries.iter().any(|e| e.started < ping_t && e.done.is_none_or(|d| d > ping_t));
        // the cache: the latest completed refresh that did not fail
        let mut cached: Option<Option<u8>> = None;
        for e in entries.iter().filter(|e| e.done.is_some_and(|d| d < ping_t)) {
            match sc.answers.get(e.idx).or(sc.answers.last()) {
                Some(Up::Status(k)) | Some(Up::Slow(k, _)) => cached = Some(Some(*k)),
                Some(Up::Null) => cached = Some(None),
                Some(Up::Error) | None => {}
            }
        }
        let Some(expect) = cached else { continue };
        judged += 1;
        let what = format!("ping #{k} at {:?} after the first refresh (endpoint script {:?}, refreshes so far {})", ping_t - first, sc.answers, entries.len());
        match (expect, &got) {
            (Some(want), Ok(Pkt::StatusResponse { body: json })) => {
                if !json.contains(&format!("answer-{want}")) {
                    return Err(("status-response-not-the-latest-answer".into(), format!("{what}: the status service last answered \"answer-{want}\", the Status Response says {json}")));
                }
            }
            (Some(want), other) => {
                let sig = if in_flight { "status-request-blocked-by-refresh" } else { "status-response-missing" };
                return Err((sig.into(), format!("{what}: the status service last answered \"answer-{want}\"{}, but the client got {other:?} after {answered_after:?}", if in_flight { " (the next refresh is still in flight)" } else { "" })));
            }
            // "no status at the moment" is passed on as the JSON value null
            (None, Ok(Pkt::StatusResponse { body: json })) => {
                if json.trim() != "null" {
                    return Err(("status-response-not-the-latest-answer".into(), format!("{what}: the status service last answered null (no status), the Status Response says {json}")));
                }
            }
            (None, other) => {
                let sig = if in_flight { "status-request-blocked-by-refresh" } else { "status-response-missing" };
                return Err((sig.into(), format!("{what}: the status service last answered null, but the client got {other:?} after {answered_after:?}")));
            }
        }
    }
    drop(inst);
    Ok(judged)
}

/// deterministic scenarios from a seed
pub fn scenarios(seed: u64, n: usize) -> Vec<Scenario> {
    let mut x = seed | 1;
    let mut next = move || {
        x ^= x << 13;
        x ^= x >> 7;
        x ^= x << 17;
        x
    };
    let mut v = vec![
        // a status that is withdrawn and comes back
        Scenario { answers: vec![Up::Status(1), Up::Status(2), Up::Null, Up::Status(3)], plan_bits: next() },
        // a refresh that hangs while clients ping
        Scenario { answers: vec![Up::Status(1), Up::Slow(2, 2300), Up::Status(3)], plan_bits: next() },
    ];
    while v.len() < n {
        let len = 3 + (next() % 2) as usize;
        let mut answers = vec![Up::Status((next() % 200) as u8)];
        for _ in 1..len {
            let r = next();
            answers.push(match r % 6 {
                0 => Up::Null,
                1 => Up::Error,
                2 => Up::Slow((r >> 8) as u8, 1300 + ((r >> 16) % 1200) as u16),
                _ => Up::Status((r >> 8) as u8),
            });
        }
        v.push(Scenario { answers, plan_bits: next() });
    }
    v.truncate(n);
    v
}
