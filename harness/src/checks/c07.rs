//! C07 — Waiting players are kept alive; silent ones are timed out.
//!
//! Timed scenarios under virtual time: adapter latencies (0 … several periods), arrival time of Login
//! Acknowledged / Client Information, per-keep-alive echo policies, unsolicited echoes. Oracle:
//! invariants over the timed trace with the 16 s period taken from the property statement.

use crate::gens;
use crate::refcodec::{Pkt, Text};
use crate::runner::{CaseInfo, Check, Tier, Verdict};
use crate::sim::{self, AdapterScript, ConnCfg, LocV, StrategyV, TransportScript};
use crate::timed::{self, Echo, Extra, ExtraKind, PERIOD, Scenario, SegPlan};
use proptest::prelude::*;
use serde::{Deserialize, Serialize};
use serde_json::{Value, json};

#[derive(Clone, Debug, Serialize, Deserialize)]
pub struct Case {
    pub sc: Scenario,
    pub select_seed: u64,
    /// second run: the write of the terminal packet (timeout Disconnect / Store Cookie / Transfer) stays
    /// pending for this many ms (0 = no second run)
    #[serde(default)]
    pub delay_terminal_ms: u8,
    /// third run: the write of one Keep Alive (chosen by `ka_pick`) stays pending for this many ms (0 = no third run)
    #[serde(default)]
    pub delay_ka_ms: u8,
    #[serde(default)]
    pub ka_pick: u8,
    /// third run, alternative: the transport accepts only this many bytes of that Keep Alive at first (0 = not used)
    #[serde(default)]
    pub ka_prefix: u8,
}

pub struct C07;

pub fn latency() -> BoxedStrategy<u32> {
    prop_oneof![
        4 => Just(0u32),
        1 => Just(1u32),
        2 => proptest::sample::select(vec![15_999u32, 16_000, 16_001, 31_999, 32_000, 32_001, 33_000, 48_001]),
        3 => 0u32..40_000,
        1 => 40_000u32..80_000,
    ]
    .boxed()
}

pub fn echo_policy() -> BoxedStrategy<Echo> {
    prop_oneof![
        5 => Just(Echo::Prompt),
        4 => (0u16..=15_995).prop_map(Echo::Delay),
        1 => proptest::sample::select(vec![1u16, 15_990, 15_995, 8_000]).prop_map(Echo::Delay),
        2 => Just(Echo::Never),
        2 => prop_oneof![Just(1u64), any::<u64>()].prop_map(Echo::WrongId),
        1 => (1u16..15_000).prop_map(Echo::Duplicate),
        1 => Just(Echo::Previous),
    ]
    .boxed()
}

/// moves the scripted instants off the tick grid (ties are not generated)
pub fn untie(mut sc: Scenario) -> Scenario {
    let t_ls = u64::from(sc.adapters.auth_ms);
    loop {
        let ack = t_ls + u64::from(sc.ack_delay_ms);
        if timed::is_tick(ack) {
            sc.ack_delay_ms += 1;
            continue;
        }
        if let Some(d) = sc.info_delay_ms {
            let info = ack + u64::from(d);
            let route = info + u64::from(sc.adapters.discovery_ms) + u64::from(sc.adapters.filter_ms) + u64::from(sc.adapters.strategy_ms);
            let a = info + u64::from(sc.adapters.discovery_ms);
            let b = a + u64::from(sc.adapters.filter_ms);
            if timed::is_tick(info) || timed::is_tick(route) || timed::is_tick(a) || timed::is_tick(b) {
                sc.info_delay_ms = Some(d + 1);
                continue;
            }
        }
        let mut changed = false;
        for e in sc.extras.iter_mut() {
            if timed::is_tick(ack + u64::from(e.after_ack_ms)) {
                e.after_ack_ms += 1;
                changed = true;
            }
        }
        if !changed {
            break;
        }
    }
    sc
}

pub fn scenario_strategy(with_plugins: bool) -> BoxedStrategy<Scenario> {
    let extras = proptest::collection::vec(
        (0u32..70_000, prop_oneof![
            2 => any::<u64>().prop_map(ExtraKind::Echo),
            if with_plugins { 3 } else { 1 } => prop_oneof![0u16..100, 110u16..400].prop_map(ExtraKind::Plugin),
        ])
            .prop_map(|(after_ack_ms, kind)| Extra { after_ack_ms, kind }),
        0..4,
    );
    (
        (latency(), latency(), latency(), latency()),
        (prop_oneof![3 => Just(0u32), 2 => 0u32..50_000, 1 => Just(15_999u32), 1 => Just(16_001u32)], prop_oneof![8 => prop_oneof![3 => Just(0u32), 2 => 0u32..50_000, 1 => Just(15_999u32), 1 => Just(16_001u32)].prop_map(Some), 1 => Just(None)]),
        proptest::collection::vec(echo_policy(), 1..6),
        extras,
        (gens::targets(3), prop_oneof![4 => any::<u16>().prop_map(StrategyV::Pick), 1 => Just(StrategyV::None)], prop_oneof![Just(2i32), Just(3i32)], proptest::sample::select(vec!["en_us", "de_de", "fr", "SHIPPED:fr_FR", "SHIPPED:es_es", "SHIPPED:zh-CN", "SHIPPED:ru_ru", "SHIPPED:de", "SHIPPED:en_gb", "SHIPPED:ja_jp"])),
    )
        .prop_map(|((auth_ms, discovery_ms, filter_ms, strategy_ms), (ack_delay_ms, info_delay_ms), echo, extras, (targets, strategy, intent, locale))| {
            // "SHIPPED:<locale>": the messages come from the tables passage ships as its default configuration
            let (loc, locale) = match locale.strip_prefix("SHIPPED:") {
                Some(l) => (crate::checks::c03::shipped_loc(), l),
                None => (LocV::Echo, locale),
            };
            let sc = Scenario {
                cfg: ConnCfg::default(),
                adapters: AdapterScript { auth_ms, discovery_ms, filter_ms, strategy_ms, discovery: Some(targets), strategy, loc, ..Default::default() },
                intent,
                locale: locale.to_string(),
                ack_delay_ms,
                info_delay_ms,
                echo,
                extras,
                horizon_ms: info_delay_ms.unwrap_or(0).saturating_add(discovery_ms).saturating_add(filter_ms).saturating_add(strategy_ms).saturating_add(100_000),
            };
            untie(sc)
        })
        .boxed()
}

/// what the trace says, in the terms of the property
pub struct View {
    pub kas: Vec<(u64, u64)>,
    pub terminal: Option<(u64, Pkt)>,
    pub end_t: Option<u64>,
}

pub fn view(out: &sim::SimOutcome) -> View {
    let kas = out
        .cb
        .iter()
        .filter_map(|(t, p)| match p {
            Pkt::CfgKeepAliveCb { id } => Some((*t, *id)),
            _ => None,
        })
        .collect();
    let terminal = out.cb.iter().find(|(_, p)| matches!(p, Pkt::CfgTransfer { .. } | Pkt::CfgDisconnect { .. })).cloned();
    let end_t = match &out.end {
        sim::ServerEnd::Returned { t, .. } => Some(*t),
        _ => None,
    };
    View { kas, terminal, end_t }
}

fn is_timeout_disconnect(p: &Pkt) -> bool {
    if matches!(p, Pkt::CfgDisconnect { reason: Text::Plain(s) } if s.starts_with("disconnect_timeout")) {
        return true;
    }
    // one of the timeout messages passage ships as its default configuration
    static SHIPPED: std::sync::OnceLock<Vec<serde_json::Value>> = std::sync::OnceLock::new();
    let shipped = SHIPPED.get_or_init(|| passage::config::FixedLocalization::default().messages.values().filter_map(|t| t.get("disconnect_timeout")).filter_map(|m| Text::from_passage_string(m)).map(|t| t.normalized()).collect());
    matches!(p, Pkt::CfgDisconnect { reason } if shipped.contains(&reason.normalized()))
}

fn decide(case: &Case, out: &sim::SimOutcome, tl: &timed::Timeline, info: &mut CaseInfo) -> Verdict {
    let sc = &case.sc;
    if let sim::ServerEnd::Panicked { msg } = &out.end {
        return Verdict::Fail { sig: "panic".into(), msg: format!("handler panicked: {msg}") };
    }
    if out.stream_broken.is_some() || out.cb_leftover != 0 {
        return Verdict::Fail { sig: "clientbound-stream-broken".into(), msg: format!("{:?} / {} stray bytes", out.stream_broken, out.cb_leftover) };
    }
    let Some(ack) = tl.ack_due else {
        return Verdict::Fail { sig: "login-did-not-complete".into(), msg: format!("no Login Success; packets {:?}, end {}", out.cb_kinds(), out.end_label()) };
    };
    let v = view(out);
    let route = timed::route_done(sc, tl);
    let last_instant = v.terminal.as_ref().map(|(t, _)| *t).or(v.end_t).or(tl.closed_at).unwrap_or(ack);

    // (I1) a Keep Alive at least every 16 s while the client is in the configuration phase
    let mut prev = ack;
    for (t, _) in &v.kas {
        if *t < ack {
            return Verdict::Fail { sig: "keep-alive-before-configuration".into(), msg: format!("Keep Alive at {t} ms, Login Acknowledged at {ack} ms") };
        }
        if t - prev > PERIOD + 1 {
            return Verdict::Fail { sig: "keep-alive-gap".into(), msg: format!("{} ms without a Keep Alive (from {prev} to {t}); Login Acknowledged at {ack}", t - prev) };
        }
        prev = *t;
    }
    if last_instant > prev && last_instant - prev > PERIOD + 1 {
        return Verdict::Fail { sig: "keep-alive-gap".into(), msg: format!("{} ms without a Keep Alive before the exchange ended at {last_instant} (last at {prev}, Login Acknowledged at {ack})", last_instant - prev) };
    }
    // (I2) never a second one before the previous was echoed
    for w in v.kas.windows(2) {
        let ((t0, id0), (t1, _)) = (w[0], w[1]);
        let echoed = tl.echoes.iter().any(|(te, ide)| *ide == id0 && *te >= t0 && *te < t1);
        if !echoed {
            return Verdict::Fail { sig: "second-keep-alive-before-echo".into(), msg: format!("Keep Alive {id0} (at {t0}) was not echoed, yet another Keep Alive was sent at {t1}; echoes {:?}", tl.echoes) };
        }
    }
    // first Keep Alive that is not echoed with its own id before the next one is due
    let unechoed = v.kas.iter().find(|(t, id)| !tl.echoes.iter().any(|(te, ide)| ide == id && *te >= *t && *te < t + PERIOD)).copied();
    // a client that has left before the deadline is not owed a timeout Disconnect
    let deadline = unechoed.map(|(t, _)| t + PERIOD).filter(|d| tl.closed_at.is_none_or(|c| c > *d));
    let timed_out = v.terminal.as_ref().is_some_and(|(_, p)| is_timeout_disconnect(p));
    info.class(format!("keep_alives:{}", v.kas.len().min(6)));

    // which of the two must happen first?
    let route_first = match (route, deadline) {
        (Some(r), Some(d)) => r < d,
        (Some(_), None) => true,
        _ => false,
    };
    if route_first {
        let r = route.unwrap();
        info.class("outcome:routed");
        // (I3) not dropped for inactivity, correct outcome as soon as routing completes
        if timed_out {
            return Verdict::Fail { sig: "timeout-although-echoed".into(), msg: format!("timeout Disconnect at {} although every Keep Alive was echoed in time until routing completed at {r}; keep alives {:?}, echoes {:?}", v.terminal.as_ref().unwrap().0, v.kas, tl.echoes) };
        }
        let discovered = sc.adapters.discovery.clone().unwrap_or_default();
        let chosen = sim::apply_strategy(&sc.adapters.strategy, &discovered).ok().flatten();
        match (&v.terminal, chosen) {
            (Some((t, Pkt::CfgTransfer { host, port })), Some(target)) => {
                let addr: std::net::SocketAddr = target.addr.parse().unwrap();
                if host.parse::<std::net::IpAddr>().ok() != Some(addr.ip()) || *port != i32::from(addr.port()) {
                    return Verdict::Fail { sig: "wrong-transfer".into(), msg: format!("Transfer to {host}:{port}, chosen {}", target.addr) };
                }
                if *t > r + 1 || *t + 1 < r {
                    return Verdict::Fail { sig: "transfer-not-at-routing-completion".into(), msg: format!("routing completed at {r} ms, Transfer sent at {t} ms") };
                }
            }
            (Some((t, Pkt::CfgDisconnect { .. })), None) => {
                if *t > r + 1 || *t + 1 < r {
                    return Verdict::Fail { sig: "disconnect-not-at-routing-completion".into(), msg: format!("routing completed at {r} ms, Disconnect sent at {t} ms") };
                }
            }
            (other, chosen) => {
                return Verdict::Fail { sig: "wrong-outcome-after-waiting".into(), msg: format!("routing completed at {r} with choice {chosen:?}; terminal packet {other:?}; end {}; keep alives {:?}; echoes {:?}", out.end_label(), v.kas, tl.echoes) };
            }
        }
    } else if let Some(d) = deadline {
        info.class("outcome:timeout");
        // (I4) the timeout Disconnect at the next due instant, no Transfer, the connection ends
        match &v.terminal {
            Some((t, p)) if is_timeout_disconnect(p) => {
                if *t > d + 1 || *t + 1 < d {
                    return Verdict::Fail { sig: "timeout-at-wrong-instant".into(), msg: format!("Keep Alive at {} unechoed; timeout Disconnect due at {d}, sent at {t}", unechoed.unwrap().0) };
                }
            }
            other => {
                return Verdict::Fail { sig: "no-timeout-for-silent-client".into(), msg: format!("Keep Alive {:?} was not echoed with its id before {d}; expected the timeout Disconnect then, got terminal {other:?}, end {}, keep alives {:?}, echoes {:?}", unechoed, out.end_label(), v.kas, tl.echoes) };
            }
        }
        if out.returned_ok() {
            return Verdict::Fail { sig: "timeout-but-ok".into(), msg: "listen returned Ok after a keep-alive timeout".into() };
        }
    } else {
        info.class("outcome:client_gave_up");
        // the client echoed everything and never sent Client Information: it is kept alive until it leaves
        if v.terminal.is_some() {
            return Verdict::Fail { sig: "dropped-although-echoed".into(), msg: format!("terminal packet {:?} although every Keep Alive was echoed", v.terminal) };
        }
    }
    if !v.kas.is_empty() && v.kas.len() >= 2 && (sc.adapters.discovery_ms > 0 || sc.adapters.filter_ms > 0 || sc.adapters.strategy_ms > 0 || sc.adapters.auth_ms > 0) {
        info.nontrivial = true;
    }
    Verdict::Pass
}

impl Check for C07 {
    type Case = Case;
    fn id(&self) -> &'static str {
        "C07"
    }
    fn strategy(&self, _tier: Tier) -> BoxedStrategy<Case> {
        (scenario_strategy(false), any::<u64>(), prop_oneof![1 => Just(0u8), 2 => 1u8..=3, 1 => 4u8..=50], any::<u8>(), prop_oneof![1 => Just(0u8), 2 => 4u8..=50], any::<u8>(), prop_oneof![3 => Just(0u8), 1 => 1u8..=9])
            .prop_map(|(mut sc, select_seed, delay_terminal_ms, aim, delay_ka_ms, ka_pick, ka_prefix)| {
                // a share of scenarios in which routing completes 1-3 ms after a keep-alive deadline: the window in
                // which a pending timeout Disconnect meets a completing backend call
                if aim % 4 == 0 && delay_terminal_ms > 0 {
                    sc.ack_delay_ms = 0;
                    sc.info_delay_ms = Some(1);
                    sc.adapters.auth_ms = 0;
                    sc.adapters.discovery_ms = 0;
                    sc.adapters.filter_ms = 0;
                    sc.adapters.strategy_ms = 32_000 + u32::from(aim % 3);
                    sc.echo = vec![Echo::Never];
                    sc.extras.clear();
                    sc = untie(sc);
                }
                // a share of scenarios in which one backend call completes 1-3 ms after a tick (while a Keep Alive
                // whose write is pending is still on its way) and the next one spans the following tick
                if aim % 4 == 1 && delay_ka_ms > 0 {
                    sc.ack_delay_ms = 0;
                    sc.info_delay_ms = Some(1);
                    sc.adapters.auth_ms = 0;
                    sc.adapters.discovery_ms = 16_000 * (1 + u32::from(aim % 2)) + u32::from(aim % 3);
                    sc.adapters.filter_ms = 0;
                    sc.adapters.strategy_ms = 20_000;
                    sc.extras.clear();
                    sc = untie(sc);
                }
                // a share of scenarios in which the echo is late and half received when the deadline passes (routing
                // takes longer than that)
                if aim % 16 == 2 {
                    sc.ack_delay_ms = 0;
                    sc.info_delay_ms = Some(1);
                    sc.adapters.auth_ms = 0;
                    sc.adapters.strategy_ms = sc.adapters.strategy_ms.max(40_000);
                    sc.echo = vec![Echo::LateSplit(1 + ka_pick % 9)];
                    sc.extras.clear();
                    sc = untie(sc);
                }
                Case { sc, select_seed, delay_terminal_ms, delay_ka_ms, ka_pick, ka_prefix }
            })
            .boxed()
    }
    fn cases(&self, tier: Tier) -> u64 {
        tier.pick(6_000, 200_000)
    }
    fn run(&self, case: &Case) -> (Verdict, CaseInfo) {
        let (out, tl) = timed::run(&case.sc, &TransportScript::default(), &SegPlan::new(), case.select_seed);
        let mut info = CaseInfo::default();
        for e in &case.sc.echo {
            info.class(format!("echo:{e:?}").split('(').next().unwrap().to_string());
        }
        if case.sc.info_delay_ms.is_none() {
            info.class("client_information:never");
        }
        let v = decide(case, &out, &tl, &mut info);
        if !matches!(v, Verdict::Pass) {
            return (v, info);
        }
        // third run: the write of one Keep Alive stays pending for a moment (the client gets it that much later and
        // reacts that much later). Nothing the client does comes within 100 ms of a deadline in either run, so it
        // must receive the same packets and the connection must end the same way.
        let echo_safe = case.sc.echo.iter().all(|e| !matches!(e, Echo::Delay(x) if *x > 15_900));
        let ka_positions: Vec<usize> = out.cb.iter().enumerate().filter(|(_, (_, p))| matches!(p, Pkt::CfgKeepAliveCb { .. })).map(|(i, _)| i).collect();
        // the pending write also keeps the server from reading for that long: whatever the client sends meanwhile
        // is handled up to 50 ms later, so nothing that starts or ends a backend call may lie in the last 100 ms
        // before a tick either
        let mut instants: Vec<u64> = tl.echoes.iter().map(|(t, _)| *t).collect();
        instants.extend(tl.ack_due);
        if let Some(i) = tl.info_due {
            let a = &case.sc.adapters;
            let d = i + u64::from(a.discovery_ms);
            let f = d + u64::from(a.filter_ms);
            instants.extend([i, d, f, f + u64::from(a.strategy_ms)]);
        }
        instants.extend(case.sc.extras.iter().filter_map(|e| tl.ack_due.map(|a| a + u64::from(e.after_ack_ms))));
        let clear_of_ticks = instants.iter().all(|t| t % PERIOD < PERIOD - 100);
        // a partially accepted write shifts nothing in time and needs no such guard
        let partial = case.ka_prefix > 0;
        let pending = case.delay_ka_ms > 0 && echo_safe && clear_of_ticks;
        if (pending || partial) && !ka_positions.is_empty() {
            let k = ka_positions[crate::runner::idx(u16::from(case.ka_pick) << 8, ka_positions.len())];
            let mut wscript = vec![sim::WStep::All; k];
            // a few bytes accepted at once, and / or the (rest of the) frame pending for a while
            if partial {
                wscript.push(sim::WStep::Prefix(u16::from(case.ka_prefix)));
            }
            if pending {
                wscript.push(sim::WStep::PendingFor(u16::from(case.delay_ka_ms)));
            }
            let (out3, _) = timed::run(&case.sc, &TransportScript { wscript, rscript: vec![] }, &SegPlan::new(), case.select_seed);
            info.class(if partial { "third_run:keep_alive_write_partial" } else { "third_run:keep_alive_write_pending" });
            let seq = |o: &sim::SimOutcome| -> Vec<String> { o.cb.iter().map(|(_, p)| crate::checks::c08::stable(p)).collect() };
            if let sim::ServerEnd::Panicked { msg } = &out3.end {
                return (Verdict::Fail { sig: "panic".into(), msg: format!("handler panicked: {msg}") }, info);
            }
            if out3.stream_broken.is_some() || seq(&out) != seq(&out3) || out.returned_ok() != out3.returned_ok() {
                return (
                    Verdict::Fail { sig: "keep-alive-bookkeeping-depends-on-write-timing".into(), msg: format!("with the write of packet #{k} (a Keep Alive) {} the client received {:?} (end {}), otherwise {:?} (end {}); stream {:?}", if partial { format!("accepted in two parts ({} bytes first)", case.ka_prefix) } else { format!("pending for {} ms", case.delay_ka_ms) }, seq(&out3), out3.end_label(), seq(&out), out.end_label(), out3.stream_broken) },
                    info,
                );
            }
        }
        if case.delay_terminal_ms == 0 {
            return (v, info);
        }
        // second run: the terminal packet's write stays pending for a moment. Whatever completes meanwhile, the
        // client gets the same terminal packet, nothing after it, and the connection ends the same way.
        let first_terminal = out.cb.iter().position(|(_, p)| matches!(p, Pkt::CfgStoreCookie { .. } | Pkt::CfgTransfer { .. } | Pkt::CfgDisconnect { .. }));
        let Some(j) = first_terminal else { return (v, info) };
        let mut wscript = vec![sim::WStep::All; j];
        wscript.push(sim::WStep::PendingFor(u16::from(case.delay_terminal_ms)));
        let (out2, _) = timed::run(&case.sc, &TransportScript { wscript, rscript: vec![] }, &SegPlan::new(), case.select_seed);
        info.class("second_run:terminal_write_pending");
        let view = |o: &sim::SimOutcome| -> Vec<String> { o.cb.iter().skip(j).map(|(_, p)| crate::checks::c08::stable(p)).collect() };
        if let sim::ServerEnd::Panicked { msg } = &out2.end {
            return (Verdict::Fail { sig: "panic".into(), msg: format!("handler panicked: {msg}") }, info);
        }
        if out2.stream_broken.is_some() || view(&out) != view(&out2) || out.returned_ok() != out2.returned_ok() {
            let timed_out = out.cb.iter().any(|(_, p)| is_timeout_disconnect(p));
            let sig = if timed_out { "timeout-outcome-depends-on-write-timing" } else { "outcome-depends-on-write-timing" };
            return (
                Verdict::Fail { sig: sig.into(), msg: format!("with the write of packet #{j} pending for {} ms the client received {:?} (end {}), otherwise {:?} (end {}); stream {:?}", case.delay_terminal_ms, view(&out2), out2.end_label(), view(&out), out.end_label(), out2.stream_broken) },
                info,
            );
        }
        (v, info)
    }
    fn rule(&self) -> String {
        "latencies of authentication, discovery, filter, strategy from {0, 1, 15999, 16000, 16001, 31999..33000, 48001, random up to 80 s}; Login Acknowledged / Client Information delayed by 0..50 s (or Client Information never sent); per-keep-alive echo policy (prompt, delayed by 0..15995 ms, never, wrong id, duplicate, previous id, late and half received at the deadline), unsolicited echoes at random instants; whole-frame delivery; second run with the terminal packet's write pending for 1-50 ms, third run with one Keep Alive's write pending for 4-50 ms or accepted in two parts (same packets and outcome required). non-trivial = at least two Keep Alives and at least one adapter latency > 0; distinct = distinct case".into()
    }
    fn assumptions(&self) -> Vec<String> {
        vec![
            "virtual time (tokio paused clock, 1 ms timer granularity, tolerance 1 ms); the 16 s period is taken from the property, not from the code".into(),
            "ties are not generated: nothing the client does and no adapter completion falls exactly on a multiple of 16 s after the connection was accepted".into(),
            "the timeout Disconnect is recognised by the localisation key the (scripted) localisation service was asked for".into(),
        ]
    }
    fn sample(&self, case: &Case) -> Value {
        let a = &case.sc.adapters;
        json!({"latencies_ms": {"auth": a.auth_ms, "discovery": a.discovery_ms, "filter": a.filter_ms, "strategy": a.strategy_ms}, "ack_delay_ms": case.sc.ack_delay_ms, "info_delay_ms": case.sc.info_delay_ms, "echo": case.sc.echo, "extras": case.sc.extras})
    }
}
