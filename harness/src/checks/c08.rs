//! C08 — Connection behaviour is independent of segmentation and completion timing.
//!
//! Metamorphic: a timed scenario is run once with whole frames and an always-accepting transport (the
//! baseline); variants of the same scenario deliver client frames in segments whose cut instants are
//! aimed at the ticks and adapter completions read from the baseline trace (last byte exactly at the
//! frame's original instant), use partial / pending write acceptance, tiny reads and another
//! `select!` seed. Oracle: the variant's trace equals the baseline's.

use crate::checks::c07;
use crate::refcodec::Pkt;
use crate::runner::{CaseInfo, Check, Tier, Verdict, idx};
use crate::sim::{self, Event, SimOutcome, TransportScript, WStep};
use crate::timed::{self, Echo, PERIOD, Scenario, SegPlan, Timeline};
use proptest::prelude::*;
use serde::{Deserialize, Serialize};
use serde_json::{Value, json};

#[derive(Clone, Debug, Serialize, Deserialize)]
pub struct CutSpec {
    pub frame_pick: u16,
    pub instant_pick: u16,
    /// -1 / 0 / +1 ms around the aimed instant
    pub delta: i8,
    pub offset_pick: u16,
    /// split the first byte off (the first byte of a two-byte length prefix for frames >= 128 bytes)
    pub split_prefix: bool,
}

#[derive(Clone, Debug, Serialize, Deserialize)]
pub enum WriteFamily {
    /// accept everything
    Plain,
    /// prefixes and Pending + immediate wake (timestamps unchanged)
    Partial(Vec<WStep>),
    /// one clientbound frame of the configuration phase stays Pending for `ms` (timestamps shift); with `prefix` > 0
    /// its first bytes are accepted before the rest stays pending
    PendingFor {
        frame_pick: u16,
        ms: u16,
        #[serde(default)]
        prefix: u8,
    },
}

#[derive(Clone, Debug, Serialize, Deserialize)]
pub struct Variant {
    pub cuts: Vec<CutSpec>,
    /// deliver one frame byte by byte, one byte per millisecond before its instant
    pub bytewise: Option<u16>,
    pub write: WriteFamily,
    pub rscript: Vec<u16>,
    pub select_seed: u64,
    /// 1 = Login Acknowledged, 2 = also Client Information are sent in the same segment as the Encryption
    /// Response (only when they are due at the instant of Login Success anyway)
    #[serde(default)]
    pub pipeline: u8,
}

#[derive(Clone, Debug, Serialize, Deserialize)]
pub struct Case {
    pub sc: Scenario,
    pub base_seed: u64,
    pub variants: Vec<Variant>,
}

pub struct C08;

/// instants of the baseline that matter: keep-alive ticks, adapter calls and completions, the end
fn instants(out: &SimOutcome) -> Vec<(u64, &'static str)> {
    let mut v: Vec<(u64, &'static str)> = Vec::new();
    for e in &out.events {
        match e {
            Event::Return { t, kind, .. } if *kind != "localize" => v.push((*t, "adapter-completion")),
            Event::Cb { t, pkt: Pkt::CfgKeepAliveCb { .. } } => v.push((*t, "tick")),
            Event::Cb { t, pkt: Pkt::CfgDisconnect { .. } } => v.push((*t, "tick")),
            _ => {}
        }
    }
    // ticks at which nothing was sent (login phase, or echoed keep-alives) are instants too
    if let Some(last) = v.iter().map(|(t, _)| *t).max() {
        let mut t = PERIOD;
        while t <= last + PERIOD {
            if !v.iter().any(|(x, _)| *x == t) {
                v.push((t, "tick"));
            }
            t += PERIOD;
        }
    }
    v.sort();
    v.dedup();
    v
}

struct Planned {
    plan: SegPlan,
    /// (frame idx, cut instant, frame due, aimed instant kind) for every cut that straddles an instant
    straddles: Vec<(usize, u64, u64, &'static str)>,
    prefix_split: bool,
}

fn plan_variant(v: &Variant, tl: &Timeline, xs: &[(u64, &'static str)]) -> Planned {
    let mut plan = SegPlan::new();
    let mut straddles = Vec::new();
    let mut prefix_split = false;
    // A client writes its frames one after the other: the early segments of a frame may only be
    // delivered after the last byte of every frame that precedes it on the wire. `lo` is the earliest
    // instant at which a first segment of the frame can exist.
    let lo = |f: &timed::FrameRec| -> u64 {
        let mut lo = f.scheduled_at;
        for g in &tl.frames {
            if g.idx != f.idx && (g.due < f.due || (g.due == f.due && g.idx < f.idx)) {
                lo = lo.max(g.due + 1);
            }
        }
        lo
    };
    let windows: std::collections::BTreeMap<usize, u64> = tl.frames.iter().map(|f| (f.idx, lo(f))).collect();
    // frames that have room before their instant
    let cuttable: Vec<&timed::FrameRec> = tl.frames.iter().filter(|f| f.due > windows[&f.idx] && f.len >= 2).collect();
    for c in &v.cuts {
        if cuttable.is_empty() {
            break;
        }
        // candidates: (frame, instant) with scheduled_at <= X + delta < due
        let mut cands: Vec<(&timed::FrameRec, u64, &'static str)> = Vec::new();
        for f in &cuttable {
            for (x, kind) in xs {
                let tau = (*x as i64 + i64::from(c.delta)).max(0) as u64;
                if tau >= windows[&f.idx] && tau < f.due {
                    cands.push((f, tau, kind));
                }
            }
        }
        let (f, tau, kind): (&timed::FrameRec, u64, Option<&'static str>) = if !cands.is_empty() && c.instant_pick % 8 != 0 {
            let (f, tau, k) = cands[idx(c.frame_pick ^ c.instant_pick.rotate_left(5), cands.len())];
            (f, tau, Some(k))
        } else {
            let f = cuttable[idx(c.frame_pick, cuttable.len())];
            let from = windows[&f.idx];
            let span = f.due - from;
            (f, from + (u64::from(c.instant_pick) * span >> 16), None)
        };
        let off = if c.split_prefix { 1 } else { 1 + idx(c.offset_pick, f.len - 1) };
        if c.split_prefix && f.len >= 130 {
            prefix_split = true;
        }
        let e = plan.entry(f.idx).or_default();
        e.push((off, f.due - tau));
        if let Some(k) = kind {
            straddles.push((f.idx, tau, f.due, k));
        } else if let Some((_, k)) = xs.iter().find(|(x, _)| tau <= *x && *x < f.due) {
            straddles.push((f.idx, tau, f.due, k));
        }
    }
    if let Some(pick) = v.bytewise {
        let wide: Vec<&&timed::FrameRec> = cuttable.iter().filter(|f| f.due - windows[&f.idx] >= f.len as u64).collect();
        if !wide.is_empty() {
            let f = wide[idx(pick, wide.len())];
            let cuts: Vec<(usize, u64)> = (1..f.len).map(|o| (o, (f.len - o) as u64)).collect();
            if let Some((_, k)) = xs.iter().find(|(x, _)| f.due - f.len as u64 <= *x && *x < f.due) {
                straddles.push((f.idx, f.due - f.len as u64 + 1, f.due, k));
            }
            plan.insert(f.idx, cuts);
        }
    }
    // normalise: offsets ascending, leads descending, no duplicates
    for cuts in plan.values_mut() {
        cuts.sort_by(|a, b| a.0.cmp(&b.0));
        cuts.dedup_by_key(|c| c.0);
        let mut lead = u64::MAX;
        for c in cuts.iter_mut() {
            if c.1 > lead {
                c.1 = lead;
            }
            lead = c.1;
        }
    }
    Planned { plan, straddles, prefix_split }
}

/// the comparable part of a clientbound packet (time-based and random fields masked)
pub fn stable(p: &Pkt) -> String {
    match p {
        Pkt::CfgKeepAliveCb { .. } => "KeepAlive".into(),
        Pkt::EncryptionRequest { should_authenticate, .. } => format!("EncryptionRequest({should_authenticate})"),
        Pkt::CfgStoreCookie { key, .. } => format!("StoreCookie({key})"),
        other => format!("{other:?}"),
    }
}

pub fn cb_view(out: &SimOutcome, with_time: bool) -> Vec<String> {
    out.cb.iter().map(|(t, p)| if with_time { format!("{t}:{}", stable(p)) } else { stable(p) }).collect()
}

pub fn call_view(out: &SimOutcome, with_time: bool) -> Vec<String> {
    out.events
        .iter()
        .filter_map(|e| match e {
            Event::Call { t, kind, args } => Some(if with_time { format!("{t}:{kind}:{args}") } else { format!("{kind}:{args}") }),
            _ => None,
        })
        .collect()
}

fn first_diff(a: &[String], b: &[String]) -> String {
    for i in 0..a.len().max(b.len()) {
        if a.get(i) != b.get(i) {
            return format!("position {i}: baseline {:?} vs variant {:?}", a.get(i), b.get(i));
        }
    }
    "equal".into()
}

fn cap(s: String) -> String {
    if s.len() > 900 { format!("{}…", s.chars().take(900).collect::<String>()) } else { s }
}

/// baselines in which something happens within 100 ms before a tick are not used for the delayed-write
/// family: a delay could legitimately move it across the tick
fn delay_safe(base: &SimOutcome, tl: &Timeline, sc: &Scenario) -> bool {
    let near = |t: u64| {
        let r = t % PERIOD;
        r >= PERIOD - 200
    };
    if sc.echo.iter().any(|e| matches!(e, Echo::Delay(d) | Echo::Duplicate(d) if *d > 15_500)) {
        return false;
    }
    if tl.ack_due.is_some_and(near) || tl.info_due.is_some_and(near) || tl.frames.iter().any(|f| near(f.due)) {
        return false;
    }
    !base.events.iter().any(|e| matches!(e, Event::Return { t, .. } | Event::Call { t, .. } if near(*t)))
}

impl Check for C08 {
    type Case = Case;
    fn id(&self) -> &'static str {
        "C08"
    }
    fn strategy(&self, _tier: Tier) -> BoxedStrategy<Case> {
        let cut = (any::<u16>(), any::<u16>(), prop_oneof![Just(-1i8), Just(0i8), Just(1i8)], any::<u16>(), prop::bool::weighted(0.2))
            .prop_map(|(frame_pick, instant_pick, delta, offset_pick, split_prefix)| CutSpec { frame_pick, instant_pick, delta, offset_pick, split_prefix });
        let wstep = prop_oneof![2 => Just(WStep::All), 3 => (1u16..12).prop_map(WStep::Prefix), 2 => Just(WStep::PendingWake)];
        let write = prop_oneof![
            2 => Just(WriteFamily::Plain),
            3 => proptest::collection::vec(wstep, 1..60).prop_map(WriteFamily::Partial),
            3 => (any::<u16>(), prop_oneof![3 => 1u16..=3, 1 => 4u16..=50]).prop_flat_map(|(frame_pick, ms)| prop_oneof![2 => Just(0u8), 1 => 1u8..9].prop_map(move |prefix| WriteFamily::PendingFor { frame_pick, ms, prefix })),
        ];
        let rscript = prop_oneof![
            2 => Just(Vec::new()),
            2 => proptest::collection::vec(prop_oneof![3 => 1u16..4, 1 => Just(0u16), 1 => 4u16..200], 1..80),
            1 => Just(vec![1u16; 400]),
        ];
        let variant = (proptest::collection::vec(cut, 1..5), proptest::option::weighted(0.25, any::<u16>()), write, rscript, any::<u64>(), prop_oneof![2 => Just(0u8), 1 => Just(1u8), 1 => Just(2u8)])
            .prop_map(|(cuts, bytewise, write, rscript, select_seed, pipeline)| Variant { cuts, bytewise, write, rscript, select_seed, pipeline });
        (c07::scenario_strategy(true), any::<u64>(), proptest::collection::vec(variant, 1..=8), any::<u8>())
            .prop_map(|(mut sc, base_seed, variants, zero)| {
                // a share of scenarios in which the client acknowledges (and informs) at once, so that the
                // frames can also travel in the segment of the Encryption Response
                if zero % 3 == 0 {
                    sc.ack_delay_ms = 0;
                    if zero % 2 == 0 && sc.info_delay_ms.is_some() {
                        sc.info_delay_ms = Some(0);
                    }
                    sc = c07::untie(sc);
                }
                Case { sc, base_seed, variants }
            })
            .boxed()
    }
    fn cases(&self, tier: Tier) -> u64 {
        tier.pick(1_000, 40_000)
    }
    fn run(&self, case: &Case) -> (Verdict, CaseInfo) {
        let mut info = CaseInfo::default();
        let (base, tl) = timed::run(&case.sc, &TransportScript::default(), &SegPlan::new(), case.base_seed);
        if let sim::ServerEnd::Panicked { msg } = &base.end {
            return (Verdict::Fail { sig: "panic".into(), msg: format!("baseline panicked: {msg}") }, info);
        }
        let xs = instants(&base);
        let base_cb_t = cb_view(&base, true);
        let base_cb = cb_view(&base, false);
        let base_calls_t = call_view(&base, true);
        let base_calls = call_view(&base, false);
        // index of the first configuration-phase clientbound frame in the baseline's accept log
        let cfg_frames: Vec<usize> = base.cb.iter().enumerate().filter(|(_, (_, p))| matches!(p, Pkt::CfgKeepAliveCb { .. } | Pkt::CfgStoreCookie { .. } | Pkt::CfgTransfer { .. } | Pkt::CfgDisconnect { .. })).map(|(i, _)| i).collect();
        let safe = delay_safe(&base, &tl, &case.sc);
        for (vi, v) in case.variants.iter().enumerate() {
            let planned = plan_variant(v, &tl, &xs);
            let (wscript, timed_compare, pending_across) = match &v.write {
                WriteFamily::Plain => (vec![], true, None),
                WriteFamily::Partial(w) => (w.clone(), true, None),
                WriteFamily::PendingFor { frame_pick, ms, prefix } => {
                    if cfg_frames.is_empty() || !safe {
                        (vec![], true, None)
                    } else {
                        // in the baseline every frame is one accepted write: the n-th frame is the n-th poll_write
                        let j = cfg_frames[idx(*frame_pick, cfg_frames.len())];
                        let mut w = vec![WStep::All; j];
                        if *prefix > 0 {
                            w.push(WStep::Prefix(u16::from(*prefix)));
                        }
                        w.push(WStep::PendingFor(*ms));
                        let t = base.cb[j].0;
                        let across = xs.iter().find(|(x, k)| *k == "adapter-completion" && *x > t && *x <= t + u64::from(*ms)).map(|(x, _)| *x);
                        (w, false, Some((t, across)))
                    }
                }
            };
            // a delayed write shifts the client's reactive frames: early segments of another frame could
            // then interleave with them on the wire, which no real client does — no cuts in this family
            let planned = if timed_compare { planned } else { Planned { plan: SegPlan::new(), straddles: vec![], prefix_split: false } };
            let transport = TransportScript { wscript, rscript: v.rscript.clone() };
            let pipeline = if timed_compare { v.pipeline } else { 0 };
            let (var, _vtl) = timed::run_pipelined(&case.sc, &transport, &planned.plan, v.select_seed, pipeline);
            if pipeline >= 1 && case.sc.ack_delay_ms == 0 {
                info.class("first_encrypted_frames_in_segment_of_encryption_response");
                info.nontrivial = true;
            }
            // classes
            for (_, _, _, k) in &planned.straddles {
                info.class(format!("cut_across:{k}"));
            }
            if planned.prefix_split {
                info.class("two_byte_length_prefix_split");
            }
            if let Some((_, Some(_))) = pending_across {
                info.class("clientbound_frame_pending_across_adapter_completion");
            }
            if var.write_disturbed {
                info.class("write_partial_or_pending");
            }
            if !planned.straddles.is_empty() || matches!(pending_across, Some((_, Some(_)))) {
                info.nontrivial = true;
            }
            let what = || -> String {
                let mut s = String::new();
                if let Some((f, tau, due, k)) = planned.straddles.first() {
                    s = format!("frame-straddles-{k}: frame {f} ({}) first part at {tau} ms, last byte at {due} ms", tl.frames.iter().find(|x| x.idx == *f).map(|x| x.label.clone()).unwrap_or_default());
                }
                if let Some((t, across)) = pending_across {
                    s += &format!(" clientbound frame of {t} ms kept pending across {across:?}");
                }
                s
            };
            let sig_of = |kind: &str| -> String {
                if let Some((_, Some(_))) = pending_across {
                    return format!("{kind}:clientbound-frame-pending-across-adapter-completion");
                }
                match planned.straddles.first() {
                    Some((_, _, _, k)) => format!("{kind}:frame-straddles-{k}"),
                    None if var.write_disturbed => format!("{kind}:partial-writes"),
                    None => format!("{kind}:segmentation"),
                }
            };
            if let sim::ServerEnd::Panicked { msg } = &var.end {
                return (Verdict::Fail { sig: sig_of("panic"), msg: format!("variant {vi} panicked: {msg}; {}", what()) }, info);
            }
            // every frame sent to the client arrives complete and uninterleaved
            if var.stream_broken.is_some() || var.cb_leftover != 0 {
                return (Verdict::Fail { sig: sig_of("clientbound-stream-corrupt"), msg: cap(format!("variant {vi}: {:?}, {} stray bytes; {}", var.stream_broken, var.cb_leftover, what())) }, info);
            }
            let (a, b, ca, cb_) = if timed_compare { (&base_cb_t, cb_view(&var, true), &base_calls_t, call_view(&var, true)) } else { (&base_cb, cb_view(&var, false), &base_calls, call_view(&var, false)) };
            if *a != b {
                return (Verdict::Fail { sig: sig_of("packets-differ"), msg: cap(format!("variant {vi}: clientbound packets differ at {}; baseline end {}, variant end {}; {}", first_diff(a, &b), base.end_label(), var.end_label(), what())) }, info);
            }
            if *ca != cb_ {
                return (Verdict::Fail { sig: sig_of("services-differ"), msg: cap(format!("variant {vi}: adapter calls differ at {}; {}", first_diff(ca, &cb_), what())) }, info);
            }
            let norm = |s: String| s.split('(').next().unwrap_or("").to_string();
            if norm(base.end_label()) != norm(var.end_label()) || base.returned_ok() != var.returned_ok() {
                return (Verdict::Fail { sig: sig_of("outcome-differs"), msg: cap(format!("variant {vi}: baseline ended {}, variant ended {}; {}", base.end_label(), var.end_label(), what())) }, info);
            }
        }
        (Verdict::Pass, info)
    }
    fn rule(&self) -> String {
        "per case one baseline (C07-style scenario incl. plugin messages of 10-400 bytes, whole frames, accepting transport) and 1-8 variants: 1-4 cuts per variant aimed at -1/0/+1 ms around the baseline's ticks and adapter calls/completions (or uniformly inside the frame's window), optional split inside a two-byte length prefix, optional byte-per-millisecond delivery, write acceptance {plain, prefixes + Pending/wake, one configuration-phase frame Pending for 1-50 ms}, read chunks down to 1 byte with spurious Pending, another select! seed. non-trivial = some cut (or pending write) straddles a tick or an adapter completion; distinct = distinct case".into()
    }
    fn assumptions(&self) -> Vec<String> {
        vec![
            "a frame takes effect when its last byte arrives: segments are delivered early, the last byte exactly at the frame's baseline instant, so timestamps must match (1 ms granularity)".into(),
            "for the delayed-write family timestamps are not compared, and baselines in which anything happens within 200 ms before a tick are not used (a delay could legitimately move it across the tick)".into(),
            "keep-alive ids, verify tokens, session ids and cookie payloads are masked (time based / random)".into(),
        ]
    }
    fn sample(&self, case: &Case) -> Value {
        json!({"scenario": {"latencies_ms": [case.sc.adapters.auth_ms, case.sc.adapters.discovery_ms, case.sc.adapters.filter_ms, case.sc.adapters.strategy_ms], "ack_delay_ms": case.sc.ack_delay_ms, "info_delay_ms": case.sc.info_delay_ms, "echo": case.sc.echo, "extras": case.sc.extras}, "variants": case.variants.iter().map(|v| json!({"cuts": v.cuts.len(), "bytewise": v.bytewise.is_some(), "write": match &v.write { WriteFamily::Plain => "plain".to_string(), WriteFamily::Partial(w) => format!("partial x{}", w.len()), WriteFamily::PendingFor { ms, .. } => format!("pending {ms} ms") }, "rscript": v.rscript.len()})).collect::<Vec<_>>()})
    }
}
