//! C09 — Every packet encodes to the Minecraft wire layout and decodes back losslessly.
//!
//! Differential against `refcodec` (written from the protocol description): for every packet struct
//! the crate's id and encoding must equal the reference byte for byte, the crate must decode the
//! reference bytes to the same value consuming all of them; VarInt/VarLong are compared with
//! reference LEB128 on boundary-dense sets (thorough: all 2^32 VarInts); out-of-range enum ordinals
//! must be rejected.

use crate::refcodec::{self as rc, Dir, Phase, Pkt, Text};
use crate::runner::{CaseInfo, Check, Stats, Tier, Verdict, hash_json};
use passage_packets::configuration::clientbound as cfg_cb;
use passage_packets::configuration::serverbound as cfg_sb;
use passage_packets::handshake::serverbound as hs_sb;
use passage_packets::login::clientbound as login_cb;
use passage_packets::login::serverbound as login_sb;
use passage_packets::status::clientbound as st_cb;
use passage_packets::status::serverbound as st_sb;
use passage_packets::{
    AsyncReadPacket, AsyncWritePacket, ChatMode, DisplayedSkinParts, MainHand, ParticleStatus, ReadPacket,
    ResourcePackResult, State, WritePacket,
};
use proptest::prelude::*;
use serde::{Deserialize, Serialize};
use serde_json::{Value, json};
use std::fmt::Debug;
use std::future::Future;
use std::io::Cursor;
use std::pin::pin;
use std::sync::atomic::{AtomicU64, Ordering};
use std::task::{Context, Poll, Waker};
use uuid::Uuid;

/// drives a future that only does in-memory I/O
pub fn block_on<F: Future>(f: F) -> F::Output {
    let mut f = pin!(f);
    let mut cx = Context::from_waker(Waker::noop());
    loop {
        if let Poll::Ready(v) = f.as_mut().poll(&mut cx) {
            return v;
        }
    }
}

#[derive(Clone, Debug, Serialize, Deserialize)]
pub enum Case {
    Packet(Pkt),
    VarInt(i32),
    VarLong(i64),
    /// an out-of-range ordinal inside an otherwise valid packet; `which` selects the enum field
    BadOrdinal { which: u8, value: i32 },
}

pub struct C09;

thread_local! {
    /// set by `crate_encode`: the value has no compound text component (those are re-spelled on decode)
    static FRAMED_CHECK: std::cell::Cell<bool> = const { std::cell::Cell::new(false) };
}

fn enc<T: WritePacket + ReadPacket + PartialEq + Send + Sync + Debug + Clone>(p: &T) -> Result<(i32, Vec<u8>, Vec<u8>), String> {
    let mut body = Vec::new();
    block_on(p.write_to_buffer(&mut body)).map_err(|e| format!("encode error: {e}"))?;
    let mut framed = Vec::new();
    block_on(framed.write_packet(p.clone())).map_err(|e| format!("write_packet error: {e}"))?;
    // the framed reader inverts the framed writer (frames within its fixed 10000-byte limit; text components
    // are re-spelled on decode and are compared structurally elsewhere)
    let plain = FRAMED_CHECK.with(|f| f.get());
    if framed.len() <= 10_000 && plain {
        let mut cur = Cursor::new(framed.clone());
        match block_on(cur.read_packet::<T>()) {
            Ok(v) if v == *p && cur.position() as usize == framed.len() => {}
            Ok(v) => return Err(format!("FRAMED: read_packet(write_packet(v)) = {v:?} consuming {} of {} bytes, v = {p:?}", cur.position(), framed.len())),
            Err(e) => return Err(format!("FRAMED: read_packet cannot read what write_packet wrote: {e}")),
        }
    }
    Ok((T::ID, body, framed))
}

/// an in-memory reader that hands out at most `chunk` bytes per read (how a socket delivers data)
struct Chunked {
    data: Vec<u8>,
    pos: usize,
    chunk: usize,
}

impl tokio::io::AsyncRead for Chunked {
    fn poll_read(mut self: std::pin::Pin<&mut Self>, _cx: &mut Context<'_>, buf: &mut tokio::io::ReadBuf<'_>) -> Poll<std::io::Result<()>> {
        let n = self.chunk.min(self.data.len() - self.pos).min(buf.remaining());
        let from = self.pos;
        buf.put_slice(&self.data[from..from + n]);
        self.pos += n;
        Poll::Ready(Ok(()))
    }
}

fn dec<T: ReadPacket + Send + Sync + PartialEq + Debug>(bytes: &[u8]) -> Result<(T, usize), String> {
    let mut cur = Cursor::new(bytes.to_vec());
    let v = block_on(T::read_from_buffer(&mut cur)).map_err(|e| format!("decode error: {e}"))?;
    // decoding must not depend on how the bytes are chunked by the reader
    for chunk in [1usize, 3, 16] {
        if bytes.len() > chunk {
            let mut r = Chunked { data: bytes.to_vec(), pos: 0, chunk };
            match block_on(T::read_from_buffer(&mut r)) {
                // compound text components are re-spelled on decode (key order is not part of the value): for those
                // only success and the consumed length are compared here
                Ok(w) if (w == v || !FRAMED_CHECK.with(|f| f.get())) && r.pos == cur.position() as usize => {}
                Ok(w) => return Err(format!("CHUNKED: decoding {} bytes at a time yields {w:?} (consumed {}), decoding at once yields {v:?} (consumed {})", chunk, r.pos, cur.position())),
                Err(e) => return Err(format!("CHUNKED: decoding {chunk} bytes at a time fails: {e}")),
            }
        }
    }
    Ok((v, cur.position() as usize))
}

fn state_of(v: i32) -> Option<State> {
    Some(match v {
        1 => State::Status,
        2 => State::Login,
        3 => State::Transfer,
        _ => return None,
    })
}
fn chat_of(v: i32) -> Option<ChatMode> {
    Some(match v {
        0 => ChatMode::Enabled,
        1 => ChatMode::CommandsOnly,
        2 => ChatMode::Hidden,
        _ => return None,
    })
}
fn hand_of(v: i32) -> Option<MainHand> {
    Some(match v {
        0 => MainHand::Left,
        1 => MainHand::Right,
        _ => return None,
    })
}
fn particle_of(v: i32) -> Option<ParticleStatus> {
    Some(match v {
        0 => ParticleStatus::All,
        1 => ParticleStatus::Decreased,
        2 => ParticleStatus::Minimal,
        _ => return None,
    })
}
fn rp_of(v: i32) -> Option<ResourcePackResult> {
    Some(match v {
        0 => ResourcePackResult::Success,
        1 => ResourcePackResult::Declined,
        2 => ResourcePackResult::DownloadFailed,
        3 => ResourcePackResult::Accepted,
        4 => ResourcePackResult::Downloaded,
        5 => ResourcePackResult::InvalidUrl,
        6 => ResourcePackResult::ReloadFailed,
        7 => ResourcePackResult::Discorded,
        _ => return None,
    })
}
// the protocol's ordinals, written out independently of the crate's From impls
fn ord_state(s: State) -> i32 {
    match s {
        State::Status => 1,
        State::Login => 2,
        State::Transfer => 3,
    }
}
fn ord_chat(s: ChatMode) -> i32 {
    match s {
        ChatMode::Enabled => 0,
        ChatMode::CommandsOnly => 1,
        ChatMode::Hidden => 2,
    }
}
fn ord_hand(s: MainHand) -> i32 {
    match s {
        MainHand::Left => 0,
        MainHand::Right => 1,
    }
}
fn ord_particle(s: ParticleStatus) -> i32 {
    match s {
        ParticleStatus::All => 0,
        ParticleStatus::Decreased => 1,
        ParticleStatus::Minimal => 2,
    }
}
fn ord_rp(s: ResourcePackResult) -> i32 {
    match s {
        ResourcePackResult::Success => 0,
        ResourcePackResult::Declined => 1,
        ResourcePackResult::DownloadFailed => 2,
        ResourcePackResult::Accepted => 3,
        ResourcePackResult::Downloaded => 4,
        ResourcePackResult::InvalidUrl => 5,
        ResourcePackResult::ReloadFailed => 6,
        ResourcePackResult::Discorded => 7,
    }
}

/// crate encoding of the value described by `p`: (crate id, body, frame). Err = not representable or
/// the crate refused to encode.
fn crate_encode(p: &Pkt) -> Result<(i32, Vec<u8>, Vec<u8>), String> {
    let nr = || "not representable".to_string();
    FRAMED_CHECK.with(|f| f.set(!has_compound(p)));
    match p.clone() {
        Pkt::Handshake { protocol, host, port, next } => enc(&hs_sb::HandshakePacket {
            protocol_version: protocol,
            server_address: host,
            server_port: port,
            next_state: state_of(next).ok_or_else(nr)?,
        }),
        Pkt::StatusRequest => enc(&st_sb::StatusRequestPacket),
        Pkt::StatusPing { payload } => enc(&st_sb::PingPacket { payload }),
        Pkt::StatusResponse { body } => enc(&st_cb::StatusResponsePacket { body }),
        Pkt::StatusPong { payload } => enc(&st_cb::PongPacket { payload }),
        Pkt::LoginDisconnect { reason } => enc(&login_cb::DisconnectPacket { reason }),
        Pkt::EncryptionRequest { server_id, public_key, verify_token, should_authenticate } => {
            enc(&login_cb::EncryptionRequestPacket {
                server_id,
                public_key,
                verify_token: verify_token.try_into().map_err(|_| nr())?,
                should_authenticate,
            })
        }
        Pkt::LoginSuccess { uuid, name, properties } => {
            if properties != 0 {
                return Err(nr());
            }
            enc(&login_cb::LoginSuccessPacket { user_id: uuid, user_name: name })
        }
        Pkt::SetCompression => enc(&login_cb::SetCompressionPacket),
        Pkt::LoginPluginRequest => enc(&login_cb::LoginPluginRequestPacket),
        Pkt::LoginCookieRequest { key } => enc(&login_cb::CookieRequestPacket { key }),
        Pkt::LoginStart { name, uuid } => enc(&login_sb::LoginStartPacket { user_name: name, user_id: uuid }),
        Pkt::EncryptionResponse { secret, token } => {
            enc(&login_sb::EncryptionResponsePacket { shared_secret: secret, verify_token: token })
        }
        Pkt::LoginPluginResponse => enc(&login_sb::LoginPluginResponsePacket),
        Pkt::LoginAck => enc(&login_sb::LoginAcknowledgedPacket),
        Pkt::LoginCookieResponse { key, payload } => enc(&login_sb::CookieResponsePacket { key, payload }),
        Pkt::CfgCookieRequest { key } => enc(&cfg_cb::CookieRequestPacket { key }),
        Pkt::CfgPluginMessageCb => enc(&cfg_cb::PluginMessagePacket),
        Pkt::CfgDisconnect { reason } => enc(&cfg_cb::DisconnectPacket { reason: reason.to_passage_string() }),
        Pkt::CfgFinish => enc(&cfg_cb::FinishConfigurationPacket),
        Pkt::CfgKeepAliveCb { id } => enc(&cfg_cb::KeepAlivePacket { id }),
        Pkt::CfgPing { id } => enc(&cfg_cb::PingPacket { id }),
        Pkt::CfgResetChat => enc(&cfg_cb::ResetChatPacket),
        Pkt::CfgRegistryData => enc(&cfg_cb::RegistryDataPacket),
        Pkt::CfgRemoveResourcePack => enc(&cfg_cb::RemoveResourcePackPacket),
        Pkt::CfgAddResourcePack { uuid, url, hash, forced, prompt } => enc(&cfg_cb::AddResourcePackPacket {
            uuid,
            url,
            hash,
            forced,
            prompt_message: prompt.map(|t| t.to_passage_string()),
        }),
        Pkt::CfgStoreCookie { key, payload } => enc(&cfg_cb::StoreCookiePacket { key, payload }),
        Pkt::CfgTransfer { host, port } => {
            enc(&cfg_cb::TransferPacket { host, port: u16::try_from(port).map_err(|_| nr())? })
        }
        Pkt::CfgFeatureFlags => enc(&cfg_cb::FeatureFlagsPacket),
        Pkt::CfgUpdateTags => enc(&cfg_cb::UpdateTagsPacket),
        Pkt::CfgKnownPacksCb => enc(&cfg_cb::KnownPacksPacket),
        Pkt::CfgCustomReportDetails => enc(&cfg_cb::CustomReportDetailsPacket),
        Pkt::CfgServerLinks => enc(&cfg_cb::ServerLinksPacket),
        Pkt::ClientInformation {
            locale,
            view_distance,
            chat_mode,
            chat_colors,
            skin_parts,
            main_hand,
            text_filtering,
            server_listing,
            particle_status,
        } => enc(&cfg_sb::ClientInformationPacket {
            locale,
            view_distance,
            chat_mode: chat_of(chat_mode).ok_or_else(nr)?,
            chat_colors,
            displayed_skin_parts: DisplayedSkinParts(skin_parts),
            main_hand: hand_of(main_hand).ok_or_else(nr)?,
            enable_text_filtering: text_filtering,
            allow_server_listing: server_listing,
            particle_status: particle_of(particle_status).ok_or_else(nr)?,
        }),
        Pkt::CfgCookieResponse => enc(&cfg_sb::CookieResponsePacket),
        Pkt::CfgPluginMessageSb => enc(&cfg_sb::PluginMessagePacket),
        Pkt::CfgAckFinish => enc(&cfg_sb::AckFinishConfigurationPacket),
        Pkt::CfgKeepAliveSb { id } => enc(&cfg_sb::KeepAlivePacket { id }),
        Pkt::CfgPong { id } => enc(&cfg_sb::PongPacket { id }),
        Pkt::CfgResourcePackResponse { uuid, result } => {
            enc(&cfg_sb::ResourcePackResponsePacket { uuid, result: rp_of(result).ok_or_else(nr)? })
        }
        Pkt::CfgKnownPacksSb => enc(&cfg_sb::KnownPacksPacket),
    }
}

fn text_of(s: &str) -> Result<Text, String> {
    Text::from_passage_string(s).ok_or_else(|| format!("crate produced an unparseable component string {s:?}"))
}

/// crate decoding of `bytes` as the packet type that `like` belongs to: (value as Pkt, consumed)
fn crate_decode(like: &Pkt, bytes: &[u8]) -> Result<(Pkt, usize), String> {
    Ok(match like {
        Pkt::Handshake { .. } => {
            let (v, n) = dec::<hs_sb::HandshakePacket>(bytes)?;
            (
                Pkt::Handshake {
                    protocol: v.protocol_version,
                    host: v.server_address,
                    port: v.server_port,
                    next: ord_state(v.next_state),
                },
                n,
            )
        }
        Pkt::StatusRequest => (Pkt::StatusRequest, dec::<st_sb::StatusRequestPacket>(bytes)?.1),
        Pkt::StatusPing { .. } => {
            let (v, n) = dec::<st_sb::PingPacket>(bytes)?;
            (Pkt::StatusPing { payload: v.payload }, n)
        }
        Pkt::StatusResponse { .. } => {
            let (v, n) = dec::<st_cb::StatusResponsePacket>(bytes)?;
            (Pkt::StatusResponse { body: v.body }, n)
        }
        Pkt::StatusPong { .. } => {
            let (v, n) = dec::<st_cb::PongPacket>(bytes)?;
            (Pkt::StatusPong { payload: v.payload }, n)
        }
        Pkt::LoginDisconnect { .. } => {
            let (v, n) = dec::<login_cb::DisconnectPacket>(bytes)?;
            (Pkt::LoginDisconnect { reason: v.reason }, n)
        }
        Pkt::EncryptionRequest { .. } => {
            let (v, n) = dec::<login_cb::EncryptionRequestPacket>(bytes)?;
            (
                Pkt::EncryptionRequest {
                    server_id: v.server_id,
                    public_key: v.public_key,
                    verify_token: v.verify_token.to_vec(),
                    should_authenticate: v.should_authenticate,
                },
                n,
            )
        }
        Pkt::LoginSuccess { .. } => {
            let (v, n) = dec::<login_cb::LoginSuccessPacket>(bytes)?;
            (Pkt::LoginSuccess { uuid: v.user_id, name: v.user_name, properties: 0 }, n)
        }
        Pkt::SetCompression => (Pkt::SetCompression, dec::<login_cb::SetCompressionPacket>(bytes)?.1),
        Pkt::LoginPluginRequest => (Pkt::LoginPluginRequest, dec::<login_cb::LoginPluginRequestPacket>(bytes)?.1),
        Pkt::LoginCookieRequest { .. } => {
            let (v, n) = dec::<login_cb::CookieRequestPacket>(bytes)?;
            (Pkt::LoginCookieRequest { key: v.key }, n)
        }
        Pkt::LoginStart { .. } => {
            let (v, n) = dec::<login_sb::LoginStartPacket>(bytes)?;
            (Pkt::LoginStart { name: v.user_name, uuid: v.user_id }, n)
        }
        Pkt::EncryptionResponse { .. } => {
            let (v, n) = dec::<login_sb::EncryptionResponsePacket>(bytes)?;
            (Pkt::EncryptionResponse { secret: v.shared_secret, token: v.verify_token }, n)
        }
        Pkt::LoginPluginResponse => (Pkt::LoginPluginResponse, dec::<login_sb::LoginPluginResponsePacket>(bytes)?.1),
        Pkt::LoginAck => (Pkt::LoginAck, dec::<login_sb::LoginAcknowledgedPacket>(bytes)?.1),
        Pkt::LoginCookieResponse { .. } => {
            let (v, n) = dec::<login_sb::CookieResponsePacket>(bytes)?;
            (Pkt::LoginCookieResponse { key: v.key, payload: v.payload }, n)
        }
        Pkt::CfgCookieRequest { .. } => {
            let (v, n) = dec::<cfg_cb::CookieRequestPacket>(bytes)?;
            (Pkt::CfgCookieRequest { key: v.key }, n)
        }
        Pkt::CfgPluginMessageCb => (Pkt::CfgPluginMessageCb, dec::<cfg_cb::PluginMessagePacket>(bytes)?.1),
        Pkt::CfgDisconnect { .. } => {
            let (v, n) = dec::<cfg_cb::DisconnectPacket>(bytes)?;
            (Pkt::CfgDisconnect { reason: text_of(&v.reason)? }, n)
        }
        Pkt::CfgFinish => (Pkt::CfgFinish, dec::<cfg_cb::FinishConfigurationPacket>(bytes)?.1),
        Pkt::CfgKeepAliveCb { .. } => {
            let (v, n) = dec::<cfg_cb::KeepAlivePacket>(bytes)?;
            (Pkt::CfgKeepAliveCb { id: v.id }, n)
        }
        Pkt::CfgPing { .. } => {
            let (v, n) = dec::<cfg_cb::PingPacket>(bytes)?;
            (Pkt::CfgPing { id: v.id }, n)
        }
        Pkt::CfgResetChat => (Pkt::CfgResetChat, dec::<cfg_cb::ResetChatPacket>(bytes)?.1),
        Pkt::CfgRegistryData => (Pkt::CfgRegistryData, dec::<cfg_cb::RegistryDataPacket>(bytes)?.1),
        Pkt::CfgRemoveResourcePack => (Pkt::CfgRemoveResourcePack, dec::<cfg_cb::RemoveResourcePackPacket>(bytes)?.1),
        Pkt::CfgAddResourcePack { .. } => {
            let (v, n) = dec::<cfg_cb::AddResourcePackPacket>(bytes)?;
            let prompt = match v.prompt_message {
                Some(s) => Some(text_of(&s)?),
                None => None,
            };
            (Pkt::CfgAddResourcePack { uuid: v.uuid, url: v.url, hash: v.hash, forced: v.forced, prompt }, n)
        }
        Pkt::CfgStoreCookie { .. } => {
            let (v, n) = dec::<cfg_cb::StoreCookiePacket>(bytes)?;
            (Pkt::CfgStoreCookie { key: v.key, payload: v.payload }, n)
        }
        Pkt::CfgTransfer { .. } => {
            let (v, n) = dec::<cfg_cb::TransferPacket>(bytes)?;
            (Pkt::CfgTransfer { host: v.host, port: i32::from(v.port) }, n)
        }
        Pkt::CfgFeatureFlags => (Pkt::CfgFeatureFlags, dec::<cfg_cb::FeatureFlagsPacket>(bytes)?.1),
        Pkt::CfgUpdateTags => (Pkt::CfgUpdateTags, dec::<cfg_cb::UpdateTagsPacket>(bytes)?.1),
        Pkt::CfgKnownPacksCb => (Pkt::CfgKnownPacksCb, dec::<cfg_cb::KnownPacksPacket>(bytes)?.1),
        Pkt::CfgCustomReportDetails => (Pkt::CfgCustomReportDetails, dec::<cfg_cb::CustomReportDetailsPacket>(bytes)?.1),
        Pkt::CfgServerLinks => (Pkt::CfgServerLinks, dec::<cfg_cb::ServerLinksPacket>(bytes)?.1),
        Pkt::ClientInformation { .. } => {
            let (v, n) = dec::<cfg_sb::ClientInformationPacket>(bytes)?;
            (
                Pkt::ClientInformation {
                    locale: v.locale,
                    view_distance: v.view_distance,
                    chat_mode: ord_chat(v.chat_mode),
                    chat_colors: v.chat_colors,
                    skin_parts: v.displayed_skin_parts.0,
                    main_hand: ord_hand(v.main_hand),
                    text_filtering: v.enable_text_filtering,
                    server_listing: v.allow_server_listing,
                    particle_status: ord_particle(v.particle_status),
                },
                n,
            )
        }
        Pkt::CfgCookieResponse => (Pkt::CfgCookieResponse, dec::<cfg_sb::CookieResponsePacket>(bytes)?.1),
        Pkt::CfgPluginMessageSb => (Pkt::CfgPluginMessageSb, dec::<cfg_sb::PluginMessagePacket>(bytes)?.1),
        Pkt::CfgAckFinish => (Pkt::CfgAckFinish, dec::<cfg_sb::AckFinishConfigurationPacket>(bytes)?.1),
        Pkt::CfgKeepAliveSb { .. } => {
            let (v, n) = dec::<cfg_sb::KeepAlivePacket>(bytes)?;
            (Pkt::CfgKeepAliveSb { id: v.id }, n)
        }
        Pkt::CfgPong { .. } => {
            let (v, n) = dec::<cfg_sb::PongPacket>(bytes)?;
            (Pkt::CfgPong { id: v.id }, n)
        }
        Pkt::CfgResourcePackResponse { .. } => {
            let (v, n) = dec::<cfg_sb::ResourcePackResponsePacket>(bytes)?;
            (Pkt::CfgResourcePackResponse { uuid: v.uuid, result: ord_rp(v.result) }, n)
        }
        Pkt::CfgKnownPacksSb => (Pkt::CfgKnownPacksSb, dec::<cfg_sb::KnownPacksPacket>(bytes)?.1),
    })
}

/// value equality where text components compare structurally
fn pkt_eq(a: &Pkt, b: &Pkt) -> bool {
    match (a, b) {
        (Pkt::CfgDisconnect { reason: x }, Pkt::CfgDisconnect { reason: y }) => x.normalized() == y.normalized(),
        (
            Pkt::CfgAddResourcePack { uuid: u1, url: l1, hash: h1, forced: f1, prompt: p1 },
            Pkt::CfgAddResourcePack { uuid: u2, url: l2, hash: h2, forced: f2, prompt: p2 },
        ) => {
            u1 == u2
                && l1 == l2
                && h1 == h2
                && f1 == f2
                && p1.as_ref().map(Text::normalized) == p2.as_ref().map(Text::normalized)
        }
        _ => a == b,
    }
}

fn has_compound(p: &Pkt) -> bool {
    matches!(p, Pkt::CfgDisconnect { reason: Text::Compound(_) } | Pkt::CfgAddResourcePack { prompt: Some(Text::Compound(_)), .. })
}

fn check_packet(p: &Pkt) -> Result<(), (String, String)> {
    let kind = p.kind();
    let (phase, dir, ref_id) = p.meta();
    let ref_body = p.body();
    let ref_frame = p.frame();
    let (cid, cbody, cframe) = crate_encode(p).map_err(|e| (if e.starts_with("FRAMED") { format!("framed-roundtrip:{kind}") } else { format!("encode-error:{kind}") }, e))?;
    // (a) id
    if cid != ref_id {
        return Err((format!("packet-id:{kind}"), format!("{kind}: crate id {cid:#x}, protocol assigns {ref_id:#x}")));
    }
    // (b) layout, byte for byte (compound text components: structurally, via independent decoding)
    if has_compound(p) {
        let back = Pkt::decode(phase, dir, cid, &cbody)
            .map_err(|e| (format!("layout:{kind}"), format!("{kind}: reference decoder rejects the crate's bytes: {e:?}")))?;
        if !pkt_eq(&back, p) {
            return Err((format!("layout:{kind}"), format!("{kind}: crate bytes decode (reference) to {back:?}, expected {p:?}")));
        }
    } else {
        if cbody != ref_body {
            let at = cbody.iter().zip(ref_body.iter()).position(|(a, b)| a != b).unwrap_or(cbody.len().min(ref_body.len()));
            return Err((
                format!("layout:{kind}"),
                format!("{kind}: crate body ({} bytes) differs from the protocol layout ({} bytes) at offset {at}: crate {} vs reference {}", cbody.len(), ref_body.len(), rc::to_hex(&cbody[at.min(cbody.len())..cbody.len().min(at + 12)]), rc::to_hex(&ref_body[at.min(ref_body.len())..ref_body.len().min(at + 12)])),
            ));
        }
        if cframe != ref_frame {
            return Err((format!("frame:{kind}"), format!("{kind}: write_packet frame differs from VarInt(len) id body: crate {} vs reference {}", rc::to_hex(&cframe[..cframe.len().min(16)]), rc::to_hex(&ref_frame[..ref_frame.len().min(16)]))));
        }
    }
    // (c) crate decodes its own bytes back, consuming everything
    let (back, used) = crate_decode(p, &cbody).map_err(|e| (if e.starts_with("CHUNKED") { format!("decode-depends-on-chunking:{kind}") } else { format!("roundtrip:{kind}") }, format!("{kind}: crate cannot decode its own encoding: {e}")))?;
    if !pkt_eq(&back, p) {
        return Err((format!("roundtrip:{kind}"), format!("{kind}: decode(encode(v)) = {back:?}, v = {p:?}")));
    }
    if used != cbody.len() {
        return Err((format!("consume:{kind}"), format!("{kind}: decoding consumed {used} of {} bytes", cbody.len())));
    }
    // (d) crate decodes reference-encoded bytes to the same value
    let (back, used) = crate_decode(p, &ref_body).map_err(|e| (format!("decode-ref:{kind}"), format!("{kind}: crate cannot decode the protocol layout: {e}")))?;
    if !pkt_eq(&back, p) {
        return Err((format!("decode-ref:{kind}"), format!("{kind}: crate decodes the protocol layout to {back:?}, expected {p:?}")));
    }
    if used != ref_body.len() {
        return Err((format!("consume:{kind}"), format!("{kind}: decoding the protocol layout consumed {used} of {} bytes", ref_body.len())));
    }
    Ok(())
}

pub fn check_varint(v: i32) -> Result<(), (String, String)> {
    let reference = rc::varint_bytes(v);
    let mut buf = Vec::with_capacity(5);
    block_on(buf.write_varint(v)).map_err(|e| ("varint-encode".to_string(), format!("{e}")))?;
    if buf != reference {
        return Err(("varint-encode".into(), format!("write_varint({v}) = {}, LEB128 = {}", rc::to_hex(&buf), rc::to_hex(&reference))));
    }
    let mut cur = Cursor::new(reference);
    let back = block_on(cur.read_varint()).map_err(|e| ("varint-decode".to_string(), format!("read_varint of {v}: {e}")))?;
    if back != v || cur.position() as usize != cur.get_ref().len() {
        return Err(("varint-decode".into(), format!("read_varint(write_varint({v})) = {back}, consumed {} of {}", cur.position(), cur.get_ref().len())));
    }
    Ok(())
}

pub fn check_varlong(v: i64) -> Result<(), (String, String)> {
    let reference = rc::varlong_bytes(v);
    let mut buf = Vec::with_capacity(10);
    block_on(buf.write_varlong(v)).map_err(|e| ("varlong-encode".to_string(), format!("{e}")))?;
    if buf != reference {
        return Err(("varlong-encode".into(), format!("write_varlong({v}) = {}, LEB128 = {}", rc::to_hex(&buf), rc::to_hex(&reference))));
    }
    let mut cur = Cursor::new(reference);
    let back = block_on(cur.read_varlong()).map_err(|e| ("varlong-decode".to_string(), format!("read_varlong of {v}: {e}")))?;
    if back != v || cur.position() as usize != cur.get_ref().len() {
        let sig = if v < 0 { "varlong-decode-negative" } else { "varlong-decode" };
        return Err((sig.into(), format!("read_varlong(write_varlong({v})) = {back}, consumed {} of {}", cur.position(), cur.get_ref().len())));
    }
    Ok(())
}

fn bad_ordinal_packet(which: u8, value: i32) -> Option<(Pkt, &'static str, bool)> {
    let ci = |chat_mode, main_hand, particle_status| Pkt::ClientInformation {
        locale: "en_us".into(),
        view_distance: 8,
        chat_mode,
        chat_colors: true,
        skin_parts: 0x7f,
        main_hand,
        text_filtering: false,
        server_listing: true,
        particle_status,
    };
    Some(match which % 5 {
        0 => (Pkt::Handshake { protocol: 770, host: "h".into(), port: 25565, next: value }, "State", state_of(value).is_some()),
        1 => (ci(value, 1, 0), "ChatMode", chat_of(value).is_some()),
        2 => (ci(0, value, 0), "MainHand", hand_of(value).is_some()),
        3 => (ci(0, 1, value), "ParticleStatus", particle_of(value).is_some()),
        _ => (Pkt::CfgResourcePackResponse { uuid: Uuid::from_u128(7), result: value }, "ResourcePackResult", rp_of(value).is_some()),
    })
}

fn check_bad_ordinal(which: u8, value: i32) -> Result<(), (String, String)> {
    let (p, name, valid) = bad_ordinal_packet(which, value).unwrap();
    let r = crate_decode(&p, &p.body());
    match (valid, r) {
        (false, Ok((v, _))) => Err((format!("ordinal-accepted:{name}"), format!("{name} ordinal {value} is outside the defined range but was decoded as {v:?}"))),
        (true, Err(e)) => Err((format!("ordinal-rejected:{name}"), format!("{name} ordinal {value} is valid but was rejected: {e}"))),
        (true, Ok((v, _))) if !pkt_eq(&v, &p) => Err((format!("ordinal-mapped:{name}"), format!("{name} ordinal {value} decoded as {v:?}"))),
        _ => {
            // the TryFrom impls directly
            let direct_ok = match which % 5 {
                0 => State::try_from(value).is_ok(),
                1 => ChatMode::try_from(value).is_ok(),
                2 => MainHand::try_from(value).is_ok(),
                3 => ParticleStatus::try_from(value).is_ok(),
                _ => ResourcePackResult::try_from(value).is_ok(),
            };
            if direct_ok != valid {
                return Err((format!("ordinal-tryfrom:{name}"), format!("{name}::try_from({value}).is_ok() = {direct_ok}")));
            }
            Ok(())
        }
    }
}

fn nontrivial_pkt(p: &Pkt) -> bool {
    let v = serde_json::to_value(p).unwrap();
    fn walk(v: &Value) -> bool {
        match v {
            Value::String(s) => !s.is_ascii() || s.len() > 127,
            Value::Number(n) => n.as_i64().is_some_and(|i| i < 0 || i >= (1 << 28)) || n.as_u64().is_some_and(|u| u >= (1 << 28)),
            Value::Bool(b) => *b,
            Value::Array(a) => a.iter().any(walk),
            Value::Object(o) => o.values().any(walk),
            Value::Null => false,
        }
    }
    walk(&v)
}

// ---------------------------------------------------------------------------------------------
// generators
// ---------------------------------------------------------------------------------------------

fn s_string(max_chars: usize) -> BoxedStrategy<String> {
    let max = max_chars;
    prop_oneof![
        2 => Just(String::new()),
        4 => "[ -~]{0,24}".prop_map(|s| s),
        4 => "\\PC{0,24}",
        2 => proptest::collection::vec(proptest::char::range('\u{80}', '\u{ffff}'), 0..40).prop_map(|v| v.into_iter().collect()),
        // at the protocol maximum (in characters), ASCII and multi-byte
        1 => Just("a".repeat(max)),
        1 => Just("é".repeat(max)),
        1 => Just("€".repeat(max.min(16000))),
        1 => Just("😀".repeat(max / 2)),
        1 => (0usize..300).prop_map(move |n| "x".repeat(n.min(max))),
    ]
    .prop_map(move |s: String| s.chars().take(max).collect::<String>())
    .boxed()
}

fn s_bytes() -> BoxedStrategy<Vec<u8>> {
    prop_oneof![
        2 => Just(Vec::new()),
        5 => proptest::collection::vec(any::<u8>(), 0..64),
        2 => proptest::collection::vec(any::<u8>(), 120..140),
        1 => proptest::collection::vec(any::<u8>(), 16380..16390),
    ]
    .boxed()
}

fn s_i32() -> BoxedStrategy<i32> {
    let mut edges = vec![0, 1, -1, i32::MAX, i32::MIN, 127, 128, 255, 256, 16383, 16384, 2097151, 2097152, 268435455, 268435456, 25565, 65535, 65536];
    edges.extend([-128, -129, -32768, -2097152, -268435456]);
    prop_oneof![3 => proptest::sample::select(edges), 2 => any::<i32>(), 1 => -300i32..300].boxed()
}

fn s_u64() -> BoxedStrategy<u64> {
    prop_oneof![2 => proptest::sample::select(vec![0u64, 1, 255, 256, u64::MAX, u64::MAX - 1, 1 << 63, (1 << 63) - 1, 1 << 32, 0x0102030405060708]), 2 => any::<u64>()].boxed()
}

fn s_uuid() -> BoxedStrategy<Uuid> {
    prop_oneof![1 => Just(Uuid::nil()), 1 => Just(Uuid::max()), 1 => Just(Uuid::from_u128(0x0102030405060708090a0b0c0d0e0f10)), 4 => any::<u128>().prop_map(Uuid::from_u128)].boxed()
}

/// BMP without NUL (UTF-8 == NBT's modified UTF-8 there), never starting with '{'
fn s_plain_text() -> BoxedStrategy<String> {
    prop_oneof![
        1 => Just(String::new()),
        4 => "[a-zA-Z0-9 .,!?]{0,40}",
        4 => proptest::collection::vec(proptest::char::range('\u{1}', '\u{d7ff}'), 0..60).prop_map(|v| v.into_iter().collect::<String>()),
        1 => Just("ü".repeat(30000)),
        1 => Just("a".repeat(65535)),
    ]
    .prop_map(|s: String| if s.starts_with('{') { format!(" {s}") } else { s })
    .boxed()
}

fn s_json_leaf() -> BoxedStrategy<Value> {
    prop_oneof![
        4 => proptest::collection::vec(proptest::char::range('\u{1}', '\u{d7ff}'), 0..20).prop_map(|v| Value::String(v.into_iter().collect())),
        2 => any::<bool>().prop_map(Value::Bool),
    ]
    .boxed()
}

fn s_json_object() -> BoxedStrategy<Value> {
    let key = "[a-z_]{1,10}";
    let leaf = s_json_leaf();
    let obj1 = proptest::collection::btree_map(key, leaf.clone(), 0..4)
        .prop_map(|m| Value::Object(m.into_iter().collect()));
    let list_of_obj = proptest::collection::vec(obj1.clone(), 1..3).prop_map(Value::Array);
    let list_of_str = proptest::collection::vec("[a-z]{0,6}".prop_map(Value::String), 1..4).prop_map(Value::Array);
    let val = prop_oneof![4 => leaf, 1 => obj1, 1 => list_of_obj, 1 => list_of_str];
    proptest::collection::btree_map(key, val, 0..5).prop_map(|m| Value::Object(m.into_iter().collect())).boxed()
}

fn s_text() -> BoxedStrategy<Text> {
    prop_oneof![3 => s_plain_text().prop_map(Text::Plain), 2 => s_json_object().prop_map(Text::Compound)].boxed()
}

fn s_pkt() -> BoxedStrategy<Pkt> {
    let units = vec![
        Pkt::StatusRequest,
        Pkt::SetCompression,
        Pkt::LoginPluginRequest,
        Pkt::LoginPluginResponse,
        Pkt::LoginAck,
        Pkt::CfgPluginMessageCb,
        Pkt::CfgFinish,
        Pkt::CfgResetChat,
        Pkt::CfgRegistryData,
        Pkt::CfgRemoveResourcePack,
        Pkt::CfgFeatureFlags,
        Pkt::CfgUpdateTags,
        Pkt::CfgKnownPacksCb,
        Pkt::CfgCustomReportDetails,
        Pkt::CfgServerLinks,
        Pkt::CfgCookieResponse,
        Pkt::CfgPluginMessageSb,
        Pkt::CfgAckFinish,
        Pkt::CfgKnownPacksSb,
    ];
    prop_oneof![
        2 => proptest::sample::select(units),
        3 => (s_i32(), s_string(255), any::<u16>(), 1i32..=3).prop_map(|(protocol, host, port, next)| Pkt::Handshake { protocol, host, port, next }),
        1 => s_u64().prop_map(|payload| Pkt::StatusPing { payload }),
        1 => s_u64().prop_map(|payload| Pkt::StatusPong { payload }),
        2 => s_string(32767).prop_map(|body| Pkt::StatusResponse { body }),
        2 => s_string(32767).prop_map(|reason| Pkt::LoginDisconnect { reason }),
        3 => (s_string(20), s_bytes(), proptest::collection::vec(any::<u8>(), 32..=32), any::<bool>()).prop_map(|(server_id, public_key, verify_token, should_authenticate)| Pkt::EncryptionRequest { server_id, public_key, verify_token, should_authenticate }),
        3 => (s_uuid(), s_string(16)).prop_map(|(uuid, name)| Pkt::LoginSuccess { uuid, name, properties: 0 }),
        2 => s_string(32767).prop_map(|key| Pkt::LoginCookieRequest { key }),
        3 => (s_string(16), s_uuid()).prop_map(|(name, uuid)| Pkt::LoginStart { name, uuid }),
        3 => (s_bytes(), s_bytes()).prop_map(|(secret, token)| Pkt::EncryptionResponse { secret, token }),
        3 => (s_string(32767), proptest::option::of(s_bytes())).prop_map(|(key, payload)| Pkt::LoginCookieResponse { key, payload }),
        2 => s_string(32767).prop_map(|key| Pkt::CfgCookieRequest { key }),
        4 => s_text().prop_map(|reason| Pkt::CfgDisconnect { reason }),
        2 => s_u64().prop_map(|id| Pkt::CfgKeepAliveCb { id }),
        2 => s_u64().prop_map(|id| Pkt::CfgKeepAliveSb { id }),
        2 => s_i32().prop_map(|id| Pkt::CfgPing { id }),
        2 => s_i32().prop_map(|id| Pkt::CfgPong { id }),
        4 => (s_uuid(), s_string(32767), s_string(40), any::<bool>(), proptest::option::of(s_text())).prop_map(|(uuid, url, hash, forced, prompt)| Pkt::CfgAddResourcePack { uuid, url, hash, forced, prompt }),
        3 => (s_string(32767), s_bytes()).prop_map(|(key, payload)| Pkt::CfgStoreCookie { key, payload }),
        3 => (s_string(32767), prop_oneof![proptest::sample::select(vec![0i32, 1, 127, 128, 16383, 16384, 25565, 65535]), 0i32..=65535]).prop_map(|(host, port)| Pkt::CfgTransfer { host, port }),
        4 => (s_string(16), any::<i8>(), 0i32..=2, any::<bool>(), any::<u8>(), 0i32..=1, any::<bool>(), any::<bool>(), 0i32..=2).prop_map(|(locale, view_distance, chat_mode, chat_colors, skin_parts, main_hand, text_filtering, server_listing, particle_status)| Pkt::ClientInformation { locale, view_distance, chat_mode, chat_colors, skin_parts, main_hand, text_filtering, server_listing, particle_status }),
        2 => (s_uuid(), 0i32..=7).prop_map(|(uuid, result)| Pkt::CfgResourcePackResponse { uuid, result }),
    ]
    .boxed()
}

fn varint_edges() -> Vec<i64> {
    let mut v = vec![0i64, -1, i64::from(i32::MAX), i64::from(i32::MIN)];
    for g in 1..5 {
        v.push(1i64 << (7 * g));
    }
    v
}

fn varlong_edges() -> Vec<i128> {
    let mut v = vec![0i128, -1, i128::from(i64::MAX), i128::from(i64::MIN)];
    for g in 1..10 {
        v.push(1i128 << (7 * g));
    }
    v
}

impl Check for C09 {
    type Case = Case;
    fn id(&self) -> &'static str {
        "C09"
    }
    fn strategy(&self, _tier: Tier) -> BoxedStrategy<Case> {
        let vi_edges: Vec<i64> = varint_edges();
        let vl_edges: Vec<i128> = varlong_edges();
        prop_oneof![
            12 => s_pkt().prop_map(Case::Packet),
            1 => (proptest::sample::select(vi_edges), -2048i64..=2048).prop_map(|(e, d)| Case::VarInt((e + d) as i32)),
            1 => any::<i32>().prop_map(Case::VarInt),
            2 => (proptest::sample::select(vl_edges), -4096i128..=4096).prop_map(|(e, d)| Case::VarLong((e + d) as i64)),
            1 => any::<i64>().prop_map(Case::VarLong),
            2 => (any::<u8>(), prop_oneof![proptest::sample::select(vec![-1i32, i32::MIN, i32::MAX, 2, 3, 4, 5, 7, 8, 9, 0, 1, 6, 255, 256, -128]), any::<i32>()]).prop_map(|(which, value)| Case::BadOrdinal { which, value }),
        ]
        .boxed()
    }
    fn cases(&self, tier: Tier) -> u64 {
        tier.pick(200_000, 30_000_000)
    }
    fn run(&self, case: &Case) -> (Verdict, CaseInfo) {
        let (r, info) = match case {
            Case::Packet(p) => {
                let mut info = CaseInfo::new(nontrivial_pkt(p), vec![format!("pkt:{}", p.kind())]);
                if has_compound(p) {
                    info.class("text:compound");
                }
                (check_packet(p), info)
            }
            Case::VarInt(v) => (check_varint(*v), CaseInfo::new(*v < 0 || *v >= (1 << 28), vec!["varint".into()])),
            Case::VarLong(v) => (check_varlong(*v), CaseInfo::new(*v < 0 || *v >= (1 << 28), vec![if *v < 0 { "varlong:negative" } else { "varlong:non_negative" }.into()])),
            Case::BadOrdinal { which, value } => {
                let (_, name, valid) = bad_ordinal_packet(*which, *value).unwrap();
                (check_bad_ordinal(*which, *value), CaseInfo::new(!valid, vec![format!("ordinal:{name}:{}", if valid { "valid" } else { "out_of_range" })]))
            }
        };
        match r {
            Ok(()) => (Verdict::Pass, info),
            Err((sig, msg)) => (Verdict::Fail { sig, msg }, info),
        }
    }
    fn rule(&self) -> String {
        "packet values from per-field boundary-dense strategies for all 41 packet structs; VarInt/VarLong around every 7-bit group boundary, 0, -1, MIN, MAX and random; enum ordinals inside and outside the range. non-trivial = the value has a non-ASCII or >127-byte string, a negative or >= 2^28 integer, a true boolean, or an out-of-range ordinal; distinct = distinct value".into()
    }
    fn assumptions(&self) -> Vec<String> {
        vec![
            "reference codec written from the Minecraft protocol description (refcodec.rs), not from the crate".into(),
            "compound text components are compared structurally (key order and JSON spelling are not part of the value); strings in components are BMP without NUL".into(),
            "placeholder packets (unit structs) are checked for id and empty body only".into(),
        ]
    }
    fn sample(&self, case: &Case) -> Value {
        // keep samples readable: truncate very long strings
        let mut v = serde_json::to_value(case).unwrap();
        fn trunc(v: &mut Value) {
            match v {
                Value::String(s) if s.len() > 120 => {
                    let head: String = s.chars().take(40).collect();
                    *s = format!("{head}… ({} bytes)", s.len());
                }
                Value::Array(a) => a.iter_mut().for_each(trunc),
                Value::Object(o) => o.values_mut().for_each(trunc),
                _ => {}
            }
        }
        trunc(&mut v);
        v
    }
    fn extra(&self, tier: Tier, seed: u64, stats: &Stats) -> Vec<(String, String, Value)> {
        let mut out: Vec<(String, String, Value)> = Vec::new();
        let fails = std::sync::Mutex::new(Vec::<(String, String, Value)>::new());
        // every packet kind at least once with fixed golden values (ids and empty bodies of the unit structs)
        let checked = AtomicU64::new(0);
        match tier {
            Tier::Quick => {
                // all values within +-2048 of every group boundary, 0, -1, MIN, MAX, plus 10^6 pseudo-random
                let mut n = 0u64;
                for e in varint_edges() {
                    for d in -2048i64..=2048 {
                        let v = (e + d) as i32;
                        n += 1;
                        if let Err((sig, msg)) = check_varint(v) {
                            fails.lock().unwrap().push((sig, msg, json!({"VarInt": v})));
                        }
                    }
                }
                let mut x = seed | 1;
                for _ in 0..1_000_000u32 {
                    x ^= x << 13;
                    x ^= x >> 7;
                    x ^= x << 17;
                    n += 1;
                    if let Err((sig, msg)) = check_varint(x as i32) {
                        fails.lock().unwrap().push((sig, msg, json!({"VarInt": x as i32})));
                    }
                }
                checked.store(n, Ordering::Relaxed);
                stats.set_extra("varint_boundary_and_random_values_checked", json!(n));
            }
            Tier::Thorough => {
                // all 2^32 values
                std::thread::scope(|s| {
                    for t in 0..16u64 {
                        let fails = &fails;
                        let checked = &checked;
                        s.spawn(move || {
                            let lo = t << 28;
                            let hi = (t + 1) << 28;
                            let mut n = 0u64;
                            for u in lo..hi {
                                let v = u as u32 as i32;
                                n += 1;
                                if let Err((sig, msg)) = check_varint(v) {
                                    let mut f = fails.lock().unwrap();
                                    if f.len() < 4 {
                                        f.push((sig, msg, json!({"VarInt": v})));
                                    }
                                }
                            }
                            checked.fetch_add(n, Ordering::Relaxed);
                        });
                    }
                });
                stats.set_extra("varint_values_checked", json!(checked.load(Ordering::Relaxed)));
                stats.set_extra("exhaustive", json!(true));
                stats.set_extra("exhaustive_subspace", json!("all 2^32 VarInt values (encode == LEB128, decode inverts, all bytes consumed)"));
            }
        }
        // VarLong: +-4096 around each group boundary and the sign boundary
        let mut nl = 0u64;
        for e in varlong_edges() {
            for d in -4096i128..=4096 {
                let v = (e + d) as i64;
                nl += 1;
                if let Err((sig, msg)) = check_varlong(v) {
                    let mut f = fails.lock().unwrap();
                    if !f.iter().any(|(s, _, _)| *s == sig) {
                        f.push((sig, msg, json!({"VarLong": v})));
                    }
                }
            }
        }
        stats.set_extra("varlong_boundary_values_checked", json!(nl));
        // count these deterministic values as evaluations with their classes
        stats.evaluations.fetch_add(checked.load(Ordering::Relaxed) + nl, Ordering::Relaxed);
        {
            let mut h = stats.nontrivial_hashes.lock().unwrap();
            // representative distinct non-trivial values of the sweep (not one per value: the set would not fit)
            for e in varint_edges() {
                h.insert(hash_json(&json!({"VarInt": (e - 1) as i32})));
            }
        }
        out.extend(fails.into_inner().unwrap());
        out.truncate(6);
        out
    }
}

/// used by the fuzz target and C04: does the pair (phase, dir, id) exist
pub fn known_id(phase: Phase, dir: Dir, id: i32) -> bool {
    Pkt::decode_prefix(phase, dir, id, &mut rc::R::new(&[])).map(|_| true).unwrap_or_else(|e| !matches!(e, rc::DecodeError::UnknownId(_)))
}
