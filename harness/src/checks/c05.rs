//! C05 — Encrypted traffic is one continuous AES-128-CFB8 stream under any I/O schedule.
//!
//! The real `CipherStream` is polled by hand over a scripted transport that accepts prefixes of
//! writes, returns `Pending`, and hands out reads in arbitrary chunk sizes. Oracle: the bytes the
//! transport accepted equal the plaintext before the switch followed by the *reference* CFB8
//! encryption (raw AES block function) of exactly the bytes the calls reported as written; the bytes
//! delivered to the reader equal the raw bytes before the switch followed by the reference decryption
//! of the rest.

use crate::refcodec::hexbytes;
use crate::refcrypto::Cfb8;
use crate::runner::{CaseInfo, Check, Tier, Verdict};
use passage_protocol::crypto::stream::{Aes128Cfb8Dec, Aes128Cfb8Enc, CipherStream, create_ciphers};
use proptest::prelude::*;
use serde::{Deserialize, Serialize};
use std::pin::Pin;
use std::sync::{Arc, Mutex};
use std::task::{Context, Poll, Waker};
use tokio::io::{AsyncRead, AsyncWrite, ReadBuf};

#[derive(Clone, Debug, Serialize, Deserialize, PartialEq)]
pub enum WStep {
    /// accept the whole buffer
    All,
    /// accept at most k bytes (k >= 1)
    Prefix(u16),
    /// return Pending (and wake immediately)
    Pending,
    /// fail with `Interrupted`, accepting nothing (the caller may simply try again)
    Interrupted,
}

#[derive(Clone, Debug, Serialize, Deserialize, PartialEq)]
pub enum RStep {
    /// deliver at most k bytes (k >= 1)
    Chunk(u16),
    Pending,
}

#[derive(Clone, Debug, Serialize, Deserialize, PartialEq)]
pub enum Op {
    /// one poll_write with this chunk
    Write(#[serde(with = "hexbytes")] Vec<u8>),
    /// write_all semantics: poll_write until every byte was reported written
    WriteAll(#[serde(with = "hexbytes")] Vec<u8>),
    Flush,
    /// one poll_read into a fresh buffer of n bytes
    Read(u16),
    /// read_exact semantics: one ReadBuf of n bytes polled until full (or EOF)
    ReadExact(u16),
    /// one poll_read into a buffer whose first `pre` bytes are already filled (must stay untouched)
    ReadInto { pre: u8, n: u16 },
    /// switch to encryption (at most once takes effect)
    Enable,
}

/// the switch inside a real connection: what the client sends right behind its Encryption Response
/// (already encrypted, in the same segment) without waiting for Login Success, and how the transport
/// chunks the server's reads and accepts its writes
#[derive(Clone, Debug, Serialize, Deserialize)]
pub struct ConnCase {
    /// 1 = Login Acknowledged, 2 = + Client Information, 3 = + a plugin message and a keep-alive echo in between
    pub pipeline: u8,
    pub intent: i32,
    pub with_secret: bool,
    pub rchunks: Vec<u16>,
    pub wsteps: Vec<crate::sim::WStep>,
    pub plugin_len: u16,
    pub select_seed: u64,
}

#[derive(Clone, Debug, Serialize, Deserialize)]
#[serde(untagged)]
pub enum Case {
    Stream(StreamCase),
    Conn(ConnCase),
}

#[derive(Clone, Debug, Serialize, Deserialize)]
pub struct StreamCase {
    #[serde(with = "hexbytes")]
    pub secret: Vec<u8>,
    pub ops: Vec<Op>,
    pub wscript: Vec<WStep>,
    pub rscript: Vec<RStep>,
    #[serde(with = "hexbytes")]
    pub inbound: Vec<u8>,
}

#[derive(Default)]
struct Shared {
    accepted: Vec<u8>,
    wscript: Vec<WStep>,
    wpos: usize,
    rscript: Vec<RStep>,
    rpos: usize,
    inbound: Vec<u8>,
    ipos: usize,
    partial_or_pending_write: bool,
    short_read: bool,
    flushes: usize,
}

struct Scripted(Arc<Mutex<Shared>>);

impl AsyncWrite for Scripted {
    fn poll_write(self: Pin<&mut Self>, cx: &mut Context<'_>, buf: &[u8]) -> Poll<std::io::Result<usize>> {
        let mut s = self.0.lock().unwrap();
        let step = s.wscript.get(s.wpos).cloned().unwrap_or(WStep::All);
        s.wpos += 1;
        match step {
            WStep::All => {
                s.accepted.extend_from_slice(buf);
                Poll::Ready(Ok(buf.len()))
            }
            WStep::Prefix(k) => {
                let n = (k.max(1) as usize).min(buf.len());
                if n < buf.len() {
                    s.partial_or_pending_write = true;
                }
                s.accepted.extend_from_slice(&buf[..n]);
                Poll::Ready(Ok(n))
            }
            WStep::Pending => {
                if !buf.is_empty() {
                    s.partial_or_pending_write = true;
                }
                cx.waker().wake_by_ref();
                Poll::Pending
            }
            WStep::Interrupted => {
                if !buf.is_empty() {
                    s.partial_or_pending_write = true;
                }
                Poll::Ready(Err(std::io::Error::from(std::io::ErrorKind::Interrupted)))
            }
        }
    }
    fn poll_flush(self: Pin<&mut Self>, _cx: &mut Context<'_>) -> Poll<std::io::Result<()>> {
        self.0.lock().unwrap().flushes += 1;
        Poll::Ready(Ok(()))
    }
    fn poll_shutdown(self: Pin<&mut Self>, _cx: &mut Context<'_>) -> Poll<std::io::Result<()>> {
        Poll::Ready(Ok(()))
    }
}

impl AsyncRead for Scripted {
    fn poll_read(self: Pin<&mut Self>, cx: &mut Context<'_>, buf: &mut ReadBuf<'_>) -> Poll<std::io::Result<()>> {
        let mut s = self.0.lock().unwrap();
        let step = s.rscript.get(s.rpos).cloned().unwrap_or(RStep::Chunk(u16::MAX));
        s.rpos += 1;
        match step {
            RStep::Pending => {
                cx.waker().wake_by_ref();
                Poll::Pending
            }
            RStep::Chunk(k) => {
                let avail = s.inbound.len() - s.ipos;
                let n = (k.max(1) as usize).min(avail).min(buf.remaining());
                if n < buf.remaining() && n < avail {
                    s.short_read = true;
                }
                let from = s.ipos;
                buf.put_slice(&s.inbound[from..from + n]);
                s.ipos += n;
                Poll::Ready(Ok(()))
            }
        }
    }
}

type Stream = CipherStream<Scripted, Aes128Cfb8Enc, Aes128Cfb8Dec>;

pub struct C05;

/// Runs the same login twice through the real `Connection`: once like a vanilla client (waits for Login
/// Success), once with the first encrypted frames sent right behind the Encryption Response and with
/// scripted read chunking / write acceptance. Everything is instant, so the traces must be equal.
fn conn_switch(c: &ConnCase) -> (Verdict, CaseInfo) {
    use crate::refcodec::Pkt;
    use crate::sim::{self, AdapterScript, ConnCfg, EncResp, TargetSpec, TransportScript};
    let cfg = ConnCfg { secret: c.with_secret.then(|| b"switch".to_vec()), ..Default::default() };
    let adapters = AdapterScript { discovery: Some(vec![TargetSpec { identifier: "t".into(), addr: "192.0.2.9:25565".into(), meta: Default::default() }]), ..Default::default() };
    let run = |pipeline: u8, transport: &TransportScript| {
        let plugin_len = c.plugin_len;
        let intent = c.intent;
        sim::run_sim(
            &cfg,
            &adapters,
            transport,
            c.select_seed,
            2000,
            crate::client_fn!(|cl| {
                let secret16: [u8; 16] = *b"switchswitchswit";
                cl.send(&Pkt::Handshake { protocol: 770, host: "switch.example.org".into(), port: 25565, next: intent });
                cl.send(&Pkt::LoginStart { name: "Switch".into(), uuid: uuid::Uuid::from_u128(5) });
                let tail = |cl: &mut sim::Client, from: u8| {
                    // frames of the configuration phase, in protocol order
                    if from <= 1 {
                        cl.send(&Pkt::LoginAck);
                    }
                    if pipeline >= 3 || from > 1 {
                        let mut w = crate::refcodec::W::new();
                        w.string("minecraft:brand").raw(&vec![0x61; plugin_len as usize]);
                        cl.push(&crate::refcodec::frame(0x02, &w.0));
                        cl.send(&Pkt::CfgKeepAliveSb { id: 77 });
                    }
                    cl.send(&sim::client_information("en_us"));
                };
                loop {
                    match cl.next().await {
                        Some((_, Pkt::LoginCookieRequest { key })) => cl.send(&Pkt::LoginCookieResponse { key, payload: None }),
                        Some((_, Pkt::EncryptionRequest { .. })) => {
                            let Some(resp) = cl.encryption_response(&EncResp::Honest, &secret16) else { return };
                            cl.send(&resp);
                            cl.enable_encryption(&secret16);
                            if pipeline >= 1 {
                                // already encrypted, in the same segment as the Encryption Response
                                cl.send(&Pkt::LoginAck);
                                if pipeline >= 2 {
                                    tail(cl, 2);
                                }
                            }
                        }
                        Some((_, Pkt::LoginSuccess { .. })) => {
                            if pipeline == 0 {
                                cl.send(&Pkt::LoginAck);
                                tail(cl, 2);
                            } else if pipeline == 1 {
                                tail(cl, 2);
                            }
                        }
                        Some((_, Pkt::CfgTransfer { .. } | Pkt::CfgDisconnect { .. })) => {
                            while cl.next().await.is_some() {}
                            return;
                        }
                        Some(_) => {}
                        None => return,
                    }
                }
            }),
        )
    };
    let base = run(0, &TransportScript::default());
    let var = run(c.pipeline.clamp(1, 3), &TransportScript { wscript: c.wsteps.clone(), rscript: c.rchunks.clone() });
    let mut info = CaseInfo::new(true, vec!["switch_inside_real_connection".into(), format!("pipelined_frames:{}", c.pipeline.clamp(1, 3))]);
    if var.write_disturbed {
        info.class("encrypted_write_partial_or_pending");
    }
    use crate::checks::c08::{call_view, cb_view};
    if let sim::ServerEnd::Panicked { msg } = &var.end {
        return (Verdict::Fail { sig: "panic".into(), msg: format!("handler panicked: {msg}") }, info);
    }
    if var.stream_broken.is_some() || var.cb_leftover != 0 {
        return (Verdict::Fail { sig: "clientbound-stream-not-one-cfb8-stream".into(), msg: format!("the client cannot decrypt what the server sent after the switch: {:?}, {} stray bytes", var.stream_broken, var.cb_leftover) }, info);
    }
    let (a, b) = (cb_view(&base, false), cb_view(&var, false));
    if a != b || call_view(&base, false) != call_view(&var, false) || base.returned_ok() != var.returned_ok() {
        return (
            Verdict::Fail {
                sig: "bytes-behind-the-switch-not-decrypted".into(),
                msg: format!("the client sent its first encrypted frames in the same segment as the Encryption Response: packets {b:?} (end {}), a client that waits for Login Success gets {a:?} (end {})", var.end_label(), base.end_label()),
            },
            info,
        );
    }
    (Verdict::Pass, info)
}

/// returns (sig,msg) on failure
fn execute(case: &StreamCase) -> (Result<(), (String, String)>, CaseInfo) {
    let mut info = CaseInfo::default();
    let secret: [u8; 16] = match case.secret.as_slice().try_into() {
        Ok(s) => s,
        Err(_) => return (Ok(()), info),
    };
    let shared = Arc::new(Mutex::new(Shared {
        wscript: case.wscript.clone(),
        rscript: case.rscript.clone(),
        inbound: case.inbound.clone(),
        ..Default::default()
    }));
    let mut stream: Stream = CipherStream::from_stream(Scripted(Arc::clone(&shared)));
    let waker = Waker::noop();
    let mut cx = Context::from_waker(waker);

    // reported-as-written plaintext, split at the switch
    let mut plain_before: Vec<u8> = Vec::new();
    let mut plain_after: Vec<u8> = Vec::new();
    // bytes delivered to the reader, and how many raw inbound bytes had been handed out at the switch
    let mut delivered: Vec<u8> = Vec::new();
    let mut raw_at_switch: Option<usize> = None;
    let mut enabled = false;
    let mut encrypted_write_disturbed = false;
    let mut short_encrypted_read = false;
    let mut guard = 0usize;

    for op in &case.ops {
        match op {
            Op::Enable => {
                if !enabled {
                    let (e, d) = create_ciphers(&secret).expect("16-byte secret");
                    stream.set_encryption(Some(e), Some(d));
                    enabled = true;
                    raw_at_switch = Some(shared.lock().unwrap().ipos);
                }
            }
            Op::Write(chunk) => {
                let before = shared.lock().unwrap().partial_or_pending_write;
                shared.lock().unwrap().partial_or_pending_write = false;
                let r = Pin::new(&mut stream).poll_write(&mut cx, chunk);
                let disturbed = shared.lock().unwrap().partial_or_pending_write;
                shared.lock().unwrap().partial_or_pending_write = before || disturbed;
                if enabled && disturbed {
                    encrypted_write_disturbed = true;
                }
                match r {
                    Poll::Ready(Ok(n)) => {
                        if n > chunk.len() {
                            return (Err(("write-overreport".into(), format!("poll_write reported {n} of {} bytes", chunk.len()))), info);
                        }
                        if enabled { &mut plain_after } else { &mut plain_before }.extend_from_slice(&chunk[..n]);
                    }
                    // the scripted transport refused this attempt: nothing was written, the stream goes on
                    Poll::Ready(Err(e)) if e.kind() == std::io::ErrorKind::Interrupted => {}
                    Poll::Ready(Err(e)) => return (Err(("io-error".into(), format!("poll_write: {e}"))), info),
                    Poll::Pending => {}
                }
            }
            Op::WriteAll(chunk) => {
                let mut off = 0;
                while off < chunk.len() {
                    guard += 1;
                    if guard > 100_000 {
                        return (Err(("no-progress".into(), "write_all made no progress".into())), info);
                    }
                    shared.lock().unwrap().partial_or_pending_write = false;
                    let r = Pin::new(&mut stream).poll_write(&mut cx, &chunk[off..]);
                    if enabled && shared.lock().unwrap().partial_or_pending_write {
                        encrypted_write_disturbed = true;
                    }
                    match r {
                        Poll::Ready(Ok(0)) => {
                            return (Err(("write-zero".into(), "poll_write returned 0 for a non-empty buffer although the transport accepts".into())), info);
                        }
                        Poll::Ready(Ok(n)) => {
                            if off + n > chunk.len() {
                                return (Err(("write-overreport".into(), format!("poll_write reported {n} bytes of {}", chunk.len() - off))), info);
                            }
                            if enabled { &mut plain_after } else { &mut plain_before }.extend_from_slice(&chunk[off..off + n]);
                            off += n;
                        }
                        Poll::Ready(Err(e)) if e.kind() == std::io::ErrorKind::Interrupted => {}
                        Poll::Ready(Err(e)) => return (Err(("io-error".into(), format!("poll_write: {e}"))), info),
                        Poll::Pending => {}
                    }
                }
            }
            Op::Flush => {
                let _ = Pin::new(&mut stream).poll_flush(&mut cx);
            }
            Op::Read(n) => {
                let mut buf = vec![0u8; *n as usize];
                let mut rb = ReadBuf::new(&mut buf);
                shared.lock().unwrap().short_read = false;
                let r = Pin::new(&mut stream).poll_read(&mut cx, &mut rb);
                if enabled && shared.lock().unwrap().short_read {
                    short_encrypted_read = true;
                }
                match r {
                    Poll::Ready(Ok(())) => delivered.extend_from_slice(rb.filled()),
                    Poll::Ready(Err(e)) => return (Err(("io-error".into(), format!("poll_read: {e}"))), info),
                    Poll::Pending => {
                        if !rb.filled().is_empty() {
                            return (Err(("pending-with-data".into(), "poll_read returned Pending but filled the buffer".into())), info);
                        }
                    }
                }
            }
            Op::ReadInto { pre, n } => {
                let pre = *pre as usize;
                let mut buf = vec![0u8; pre + *n as usize];
                let marker: Vec<u8> = (0..pre).map(|i| 0xA0u8 ^ (i as u8)).collect();
                let mut rb = ReadBuf::new(&mut buf);
                rb.put_slice(&marker);
                shared.lock().unwrap().short_read = false;
                let r = Pin::new(&mut stream).poll_read(&mut cx, &mut rb);
                if enabled && shared.lock().unwrap().short_read {
                    short_encrypted_read = true;
                }
                match r {
                    Poll::Ready(Ok(())) => {
                        if rb.filled()[..pre] != marker[..] {
                            return (Err(("prefilled-region-touched".into(), "poll_read modified bytes that were already in the buffer".into())), info);
                        }
                        delivered.extend_from_slice(&rb.filled()[pre..]);
                    }
                    Poll::Ready(Err(e)) => return (Err(("io-error".into(), format!("poll_read: {e}"))), info),
                    Poll::Pending => {}
                }
            }
            Op::ReadExact(n) => {
                let mut buf = vec![0u8; *n as usize];
                let mut rb = ReadBuf::new(&mut buf);
                loop {
                    guard += 1;
                    if guard > 100_000 {
                        return (Err(("no-progress".into(), "read_exact made no progress".into())), info);
                    }
                    if rb.remaining() == 0 {
                        break;
                    }
                    let before = rb.filled().len();
                    shared.lock().unwrap().short_read = false;
                    let r = Pin::new(&mut stream).poll_read(&mut cx, &mut rb);
                    if enabled && shared.lock().unwrap().short_read {
                        short_encrypted_read = true;
                    }
                    match r {
                        Poll::Ready(Ok(())) => {
                            if rb.filled().len() == before {
                                break; // EOF
                            }
                        }
                        Poll::Ready(Err(e)) => return (Err(("io-error".into(), format!("poll_read: {e}"))), info),
                        Poll::Pending => {}
                    }
                }
                delivered.extend_from_slice(rb.filled());
            }
        }
    }

    // oracle
    let s = shared.lock().unwrap();
    let mut expect_out = plain_before.clone();
    expect_out.extend(Cfb8::new(&secret).encrypt(&plain_after));
    let raw_handed = &s.inbound[..s.ipos];
    let split = raw_at_switch.unwrap_or(raw_handed.len());
    let mut expect_in = raw_handed[..split].to_vec();
    expect_in.extend(Cfb8::new(&secret).decrypt(&raw_handed[split..]));

    info.nontrivial = enabled && (encrypted_write_disturbed || short_encrypted_read) && !plain_after.is_empty();
    if enabled {
        info.class("switch");
    }
    if enabled && !plain_before.is_empty() {
        info.class("plaintext_then_ciphertext");
    }
    if encrypted_write_disturbed {
        info.class("encrypted_write_partial_or_pending");
    }
    if short_encrypted_read {
        info.class("encrypted_short_read");
    }

    if s.accepted != expect_out {
        let at = s.accepted.iter().zip(expect_out.iter()).position(|(a, b)| a != b).unwrap_or(s.accepted.len().min(expect_out.len()));
        let sig = if s.accepted.len() != expect_out.len() {
            "write-length-mismatch"
        } else if at < plain_before.len() {
            "plaintext-before-switch-altered"
        } else if encrypted_write_disturbed {
            "ciphertext-diverges-after-partial-or-pending-write"
        } else {
            "ciphertext-mismatch"
        };
        return (
            Err((
                sig.into(),
                format!(
                    "socket received {} bytes, reference CFB8 of the {} reported bytes has {}; first difference at offset {at} (switch at {})",
                    s.accepted.len(),
                    plain_before.len() + plain_after.len(),
                    expect_out.len(),
                    plain_before.len()
                ),
            )),
            info,
        );
    }
    if delivered != expect_in {
        let at = delivered.iter().zip(expect_in.iter()).position(|(a, b)| a != b).unwrap_or(delivered.len().min(expect_in.len()));
        let sig = if delivered.len() != expect_in.len() { "read-length-mismatch" } else if at < split { "plaintext-read-altered" } else { "decryption-mismatch" };
        return (
            Err((sig.into(), format!("reader got {} bytes, reference has {}; first difference at {at} (switch at raw offset {split})", delivered.len(), expect_in.len()))),
            info,
        );
    }
    (Ok(()), info)
}

fn op_strategy() -> impl Strategy<Value = Op> {
    let chunk = prop_oneof![
        4 => proptest::collection::vec(any::<u8>(), 0..40),
        2 => proptest::collection::vec(any::<u8>(), 40..300),
        1 => proptest::collection::vec(any::<u8>(), 300..2000),
    ];
    prop_oneof![
        3 => chunk.clone().prop_map(Op::Write),
        4 => chunk.prop_map(Op::WriteAll),
        1 => Just(Op::Flush),
        3 => (1u16..600).prop_map(Op::Read),
        2 => (1u16..300).prop_map(Op::ReadExact),
        1 => (0u8..20, 1u16..100).prop_map(|(pre, n)| Op::ReadInto { pre, n }),
        1 => Just(Op::Enable),
    ]
}

impl Check for C05 {
    type Case = Case;
    fn id(&self) -> &'static str {
        "C05"
    }
    fn strategy(&self, tier: Tier) -> BoxedStrategy<Case> {
        let max_ops = tier.pick(14usize, 30);
        let w = prop_oneof![
            3 => Just(WStep::All),
            3 => (1u16..40).prop_map(WStep::Prefix),
            1 => (40u16..1500).prop_map(WStep::Prefix),
            2 => Just(WStep::Pending),
            1 => Just(WStep::Interrupted),
        ];
        let r = prop_oneof![
            2 => (1u16..4).prop_map(RStep::Chunk),
            2 => (4u16..200).prop_map(RStep::Chunk),
            1 => Just(RStep::Chunk(u16::MAX)),
            2 => Just(RStep::Pending),
        ];
        let stream = (
            proptest::collection::vec(any::<u8>(), 16..=16),
            proptest::collection::vec(op_strategy(), 1..max_ops),
            proptest::collection::vec(w, 0..40),
            proptest::collection::vec(r, 0..40),
            proptest::collection::vec(any::<u8>(), 0..1500),
            // where to force an Enable (so that most cases do switch), as a fraction of the op list
            any::<u16>(),
            prop::bool::weighted(0.85),
        )
            .prop_map(|(secret, mut ops, wscript, rscript, inbound, at, force)| {
                if force && !ops.iter().any(|o| *o == Op::Enable) {
                    let i = crate::runner::idx(at, ops.len() + 1);
                    ops.insert(i, Op::Enable);
                }
                Case::Stream(StreamCase { secret, ops, wscript, rscript, inbound })
            })
            .boxed();
        let wstep = prop_oneof![2 => Just(crate::sim::WStep::All), 3 => (1u16..20).prop_map(crate::sim::WStep::Prefix), 2 => Just(crate::sim::WStep::PendingWake)];
        let conn = (1u8..=3, prop_oneof![Just(2i32), Just(3i32)], any::<bool>(), prop_oneof![1 => Just(Vec::new()), 3 => proptest::collection::vec(prop_oneof![3 => 1u16..8, 1 => Just(0u16), 2 => 8u16..400], 1..60)], proptest::collection::vec(wstep, 0..30), 0u16..300, any::<u64>())
            .prop_map(|(pipeline, intent, with_secret, rchunks, wsteps, plugin_len, select_seed)| Case::Conn(ConnCase { pipeline, intent, with_secret, rchunks, wsteps, plugin_len, select_seed }))
            .boxed();
        let conn_weight = 1u32;
        prop_oneof![12 => stream, conn_weight => conn].boxed()
    }
    fn cases(&self, tier: Tier) -> u64 {
        tier.pick(60_000, 10_000_000)
    }
    fn run(&self, case: &Case) -> (Verdict, CaseInfo) {
        let case = match case {
            Case::Stream(s) => s,
            Case::Conn(c) => return conn_switch(c),
        };
        let (r, info) = execute(case);
        match r {
            Ok(()) => (Verdict::Pass, info),
            Err((sig, msg)) => (Verdict::Fail { sig, msg }, info),
        }
    }
    fn rule(&self) -> String {
        "generated op lists (write, write_all, flush, read, read_exact, read into a partly filled buffer, enable encryption) over a transport with generated write-acceptance (all / prefix k / Pending) and read (chunk k / Pending) scripts; non-trivial = encryption enabled AND (an encrypted write was partially accepted or returned Pending, OR an encrypted read was shorter than requested) AND encrypted bytes were written; distinct = distinct case".into()
    }
    fn assumptions(&self) -> Vec<String> {
        vec![
            "reference CFB8 from aes::Aes128::encrypt_block, checked against NIST SP 800-38A F.3.7".into(),
            "after Pending or a partial accept the caller may retry with any buffer (AsyncWrite contract); only bytes reported as written count as plaintext".into(),
        ]
    }
}
