//! C11 — The session server hash equals Minecraft's signed SHA-1 hex digest.
//!
//! Generator: server id (mostly empty, else ≤ 64 Unicode chars), shared secret (mostly 16 bytes, else
//! 0–64), key bytes 0–300. Oracle: `refcrypto::mc_hash` (sha1_smol + hand-written two's-complement
//! formatting). A deterministic mining pass searches (with the reference only) for inputs whose digest
//! falls into the rare classes and feeds them to the real function.

use crate::refcodec::hexbytes;
use crate::refcrypto;
use crate::runner::{CaseInfo, Check, Stats, Tier, Verdict};
use passage_adapters::authentication::minecraft_hash;
use proptest::prelude::*;
use serde::{Deserialize, Serialize};
use serde_json::{Value, json};

#[derive(Clone, Debug, Serialize, Deserialize)]
pub struct Case {
    pub server_id: String,
    #[serde(with = "hexbytes")]
    pub secret: Vec<u8>,
    #[serde(with = "hexbytes")]
    pub key: Vec<u8>,
    /// compare the serverId the real MojangAdapter sends (through the loopback mock) instead of the bare function
    #[serde(default)]
    pub via_adapter: bool,
    /// through a whole instance: (server id in the environment layer?, how the configuration is layered)
    #[serde(default)]
    pub configured: Option<(bool, crate::layers::LayerPlan)>,
}

pub struct C11;

fn classes_of(digest: &[u8; 20]) -> Vec<String> {
    let mut c = Vec::new();
    let neg = digest[0] & 0x80 != 0;
    c.push(if neg { "negative" } else { "non_negative" }.to_string());
    if !neg && digest[0] >> 4 == 0 {
        c.push("pos_leading_zero_nibble".into());
    }
    if !neg && digest[0] == 0 {
        c.push("pos_leading_zero_byte".into());
    }
    if neg && digest[0] >> 4 == 0xf {
        c.push("neg_magnitude_leading_zero_nibble".into());
    }
    if neg && digest[0] == 0xff {
        c.push("neg_magnitude_leading_zero_byte".into());
    }
    if neg && digest[1..].iter().all(|b| *b == 0) {
        c.push("neg_low_bytes_zero(carry chain)".into());
    }
    // a negation done word by word has to carry out of an all-zero low word
    for (bits, from) in [(16usize, 18usize), (24, 17), (32, 16)] {
        if digest[from..].iter().all(|b| *b == 0) {
            c.push(format!("{}_low_{bits}_bits_zero", if neg { "neg" } else { "pos" }));
        }
    }
    c
}

fn decide(case: &Case) -> (Verdict, CaseInfo) {
    let digest = refcrypto::sha1(&[case.server_id.as_bytes(), &case.secret, &case.key]);
    let expect = refcrypto::signed_hex(&digest);
    if let Some((via_env, plan)) = &case.configured {
        let info = CaseInfo::new(true, vec!["configured_instance".to_string()]);
        return match crate::checks::c12::observed_server_id_configured(&case.server_id, *via_env, plan) {
            Ok((sent, expect)) if sent != expect => (
                Verdict::Fail { sig: "configured-server-id-hash-differs-from-minecraft-hash".into(), msg: format!("server id {:?} configured through {} ({}): the session service was asked with serverId {sent:?}, Minecraft's hash of (server id, secret, key) is {expect:?}", case.server_id, if *via_env { "the environment" } else { "the configuration file" }, plan.label()) },
                info,
            ),
            Ok(_) => (Verdict::Pass, info),
            Err(e) => (Verdict::Inconclusive(format!("configured instance: {e}")), info),
        };
    }
    let got = if case.via_adapter {
        match crate::checks::c12::observed_server_id(&case.server_id, &case.secret, &case.key) {
            Some(s) => s,
            None => return (Verdict::Inconclusive("no request reached the mock".into()), CaseInfo::default()),
        }
    } else {
        minecraft_hash(&case.server_id, &case.secret, &case.key)
    };
    let classes = classes_of(&digest);
    let nontrivial = classes.iter().any(|c| c != "non_negative");
    let info = CaseInfo::new(nontrivial, classes);
    if got != expect {
        let sig = if case.via_adapter { "adapter-hash-differs-from-minecraft-hash" } else if digest[0] & 0x80 != 0 { "hash-mismatch-negative" } else { "hash-mismatch-positive" };
        return (
            Verdict::Fail { sig: sig.into(), msg: format!("minecraft_hash = {got:?}, reference = {expect:?}") },
            info,
        );
    }
    (Verdict::Pass, info)
}

impl Check for C11 {
    type Case = Case;
    fn id(&self) -> &'static str {
        "C11"
    }
    fn strategy(&self, _tier: Tier) -> BoxedStrategy<Case> {
        let server_id = prop_oneof![
            3 => Just(String::new()),
            1 => "\\PC{0,64}",
            1 => "[a-z0-9]{0,20}",
        ];
        let secret = prop_oneof![
            3 => proptest::collection::vec(any::<u8>(), 16..=16),
            1 => proptest::collection::vec(any::<u8>(), 0..=64),
        ];
        let key = proptest::collection::vec(any::<u8>(), 0..=300);
        (server_id, secret, key).prop_map(|(server_id, secret, key)| Case { server_id, secret, key, via_adapter: false, configured: None }).boxed()
    }
    fn cases(&self, tier: Tier) -> u64 {
        tier.pick(200_000, 50_000_000)
    }
    fn run(&self, case: &Case) -> (Verdict, CaseInfo) {
        decide(case)
    }
    fn rule(&self) -> String {
        "random (server id, secret, key); non-trivial = digest negative, or with a leading zero nibble/byte in its printed magnitude; distinct = distinct input. extra: reference-mined inputs with >= 3 leading zero (or F) nibbles or >= 16 (quick) / 24 (thorough, 2^33 inputs scanned) trailing zero bits; two stored inputs whose digests end in 32 zero bits (one negative, one positive); the serverId the real Mojang adapter sends to the loopback mock for 16 configured server ids; whole logins against a passage child process whose server id (numeric / boolean look-alikes included) comes from a configuration file or the environment".into()
    }
    fn assumptions(&self) -> Vec<String> {
        vec![
            "oracle: sha1_smol SHA-1 + hand-written two's-complement hex formatting, self-tested against the three published wiki.vg vectors and the synthetic edge digests 0, 0x80..00, 0xff..ff".into(),
            "the digests 0x80..00 and 0 cannot be produced through the public function (needs a SHA-1 preimage): unreached".into(),
        ]
    }
    fn extra(&self, tier: Tier, seed: u64, stats: &Stats) -> Vec<(String, String, Value)> {
        // mine rare digest classes with the reference, then check them against the real function
        let n: u64 = tier.pick(1 << 22, 1 << 33);
        let threads = 16u64;
        let found = std::sync::Mutex::new(Vec::new());
        let mined = std::sync::atomic::AtomicU64::new(0);
        std::thread::scope(|s| {
            for t in 0..threads {
                let found = &found;
                let mined = &mined;
                s.spawn(move || {
                    let secret = [0x42u8; 16];
                    for i in (t..n).step_by(threads as usize) {
                        let key = (seed ^ i).to_be_bytes();
                        let d = refcrypto::sha1(&[b"", &secret, &key]);
                        let lead = u32::from_be_bytes([d[0], d[1], d[2], d[3]]);
                        // >= 3 leading zero nibbles, or negative with >= 3 leading F nibbles, or 0x80 0x00 ..
                        // ... or at least 16 (quick) / 24 (thorough) low zero bits
                        let low_zero = d[19] == 0 && d[18] == 0 && (n <= (1 << 22) || d[17] == 0);
                        let rare = lead >> 20 == 0 || lead >> 20 == 0xfff || (d[0] == 0x80 && d[1] == 0) || low_zero;
                        if rare {
                            mined.fetch_add(1, std::sync::atomic::Ordering::Relaxed);
                            let case = Case { server_id: String::new(), secret: secret.to_vec(), key: key.to_vec(), via_adapter: false, configured: None };
                            let (v, info) = decide(&case);
                            stats.record(crate::runner::hash_json(&case), &info, || serde_json::to_value(&case).unwrap());
                            if let Verdict::Fail { sig, msg } = v {
                                found.lock().unwrap().push((sig, msg, serde_json::to_value(&case).unwrap()));
                            }
                        }
                    }
                });
            }
        });
        // the hash as it is *used towards the session service*: the real MojangAdapter against the loopback mock
        // (hook H1), for server ids that a configuration can contain (surrounding blanks, Unicode, empty)
        let ids = ["", "lobby", " lobby", "lobby ", "\tlobby\n", " ", "a b", "grüße", "-", "0", "LOBBY", "lobby\u{a0}", "exactly-twenty-chars!", "twenty-one-characters", "a-server-id-that-is-considerably-longer-than-twenty-characters", "ääääääääääääääääääääää"];
        let rounds: u64 = tier.pick(25, 2_000);
        let mut adapter_cases = 0u64;
        let mut x = seed | 1;
        'outer: for r in 0..rounds {
            for id in ids {
                x ^= x << 13;
                x ^= x >> 7;
                x ^= x << 17;
                let secret = x.to_be_bytes().repeat(2);
                let key = (x.rotate_left(17) ^ r).to_be_bytes().to_vec();
                let Some(sent) = crate::checks::c12::observed_server_id(id, &secret, &key) else { continue };
                adapter_cases += 1;
                let expect = refcrypto::mc_hash(id, &secret, &key);
                if sent != expect {
                    found.lock().unwrap().push(("adapter-hash-differs-from-minecraft-hash".to_string(), format!("configured server id {id:?}: the session service was asked with serverId {sent:?}, Minecraft's hash of (server id, secret, key) is {expect:?}"), serde_json::to_value(Case { server_id: id.to_string(), secret: secret.clone(), key: key.clone(), via_adapter: true, configured: None }).unwrap()));
                    break 'outer;
                }
            }
        }
        // ... and through a whole instance whose server id comes from the operator's layered configuration
        // (file formats, environment): ids that look like numbers or booleans are still ids
        let conf_ids = ["", "lobby", "007", "1e3", "TRUE", "false", "0x1f", "1_000", "3.0", "-0", "+5", "null", "~", "yes", "Lobby-1", "a b", "gr\u{fc}\u{df}e", "0.10"];
        let conf_rounds: u64 = tier.pick(1, 12);
        let mut configured = 0u64;
        let mut not_started = 0u64;
        'conf: for _ in 0..conf_rounds {
            for id in conf_ids {
                x ^= x << 13;
                x ^= x >> 7;
                x ^= x << 17;
                let plan = crate::layers::LayerPlan::from_bits(x);
                for via_env in [false, true] {
                    // an empty value cannot be told from an unset variable
                    if via_env && id.is_empty() {
                        continue;
                    }
                    let case = Case { server_id: id.to_string(), secret: vec![], key: vec![], via_adapter: false, configured: Some((via_env, plan.clone())) };
                    match decide(&case).0 {
                        Verdict::Pass => configured += 1,
                        Verdict::Fail { sig, msg } => {
                            found.lock().unwrap().push((sig, msg, serde_json::to_value(&case).unwrap()));
                            break 'conf;
                        }
                        Verdict::Inconclusive(e) => {
                            not_started += 1;
                            stats.set_extra("configured_instance_last_problem", json!(e));
                        }
                    }
                }
            }
        }
        stats.set_extra("configured_instance_logins_checked", json!(configured));
        stats.set_extra("configured_instance_problems", json!(not_started));
        stats.evaluations.fetch_add(configured, std::sync::atomic::Ordering::Relaxed);
        stats.set_extra("adapter_requests_checked", json!(adapter_cases));
        stats.evaluations.fetch_add(adapter_cases, std::sync::atomic::Ordering::Relaxed);
        stats.set_extra("mined_inputs_scanned_with_reference", json!(n));
        stats.set_extra("mined_rare_digest_cases_checked", json!(mined.load(std::sync::atomic::Ordering::Relaxed)));
        let mut v = found.into_inner().unwrap();
        v.truncate(3);
        v
    }
}
