// server (and client) stubs for the mock gRPC services, generated from the repository's own .proto files
fn main() -> Result<(), Box<dyn std::error::Error>> {
    let root = "/repo/passage-adapters/grpc/proto";
    println!("cargo:rerun-if-changed={root}");
    tonic_prost_build::configure()
        .protoc_arg("--experimental_allow_proto3_optional")
        .build_server(true)
        .build_client(false)
        .compile_protos(
            &[
                format!("{root}/adapter/adapter.proto"),
                format!("{root}/adapter/discovery.proto"),
                format!("{root}/adapter/status.proto"),
                format!("{root}/adapter/strategy.proto"),
            ],
            &[root.to_string()],
        )?;
    Ok(())
}
